#!/bin/sh
# Builds /verif/.venv: an overlay of /venv (numpy, npTDMS editable -> /repo) plus z3-solver,
# cvc5 and jsonschema from the offline wheelhouse.  Idempotent; no network.
set -e
HERE="$(cd "$(dirname "$0")" && pwd)"
V="$HERE/.venv"
if [ -x "$V/bin/python" ] && "$V/bin/python" -c "import z3, numpy, nptdms" 2>/dev/null; then
    exit 0
fi
rm -rf "$V"
/venv/bin/python -m venv "$V"
SP="$("$V/bin/python" -c 'import sysconfig; print(sysconfig.get_paths()["purelib"])')"
echo "import site; site.addsitedir('/venv/lib/python3.12/site-packages')" > "$SP/_base.pth"
PIP_NO_INDEX=1 "$V/bin/python" -m pip install -q --no-index --find-links /opt/veriftools/wheels z3-solver >/dev/null
PIP_NO_INDEX=1 "$V/bin/python" -m pip install -q --no-index --find-links /opt/veriftools/wheels cvc5 jsonschema >/dev/null 2>&1 || true
"$V/bin/python" -c "import z3, numpy, nptdms; print('verif venv ok: z3', z3.get_version_string())"

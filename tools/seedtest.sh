#!/bin/sh
# usage: tools/seedtest.sh <patch.diff> <tier> C04 [C19 ...]   -- applies the patch to /repo, runs the checks, reverts
P="$1"; TIER="$2"; shift 2
cd /verif
git -C /repo apply --3way "$P" 2>/dev/null || git -C /repo apply "$P" || { echo "PATCH DOES NOT APPLY"; exit 3; }
for c in "$@"; do
  ./vcheck "$c" --tier "$TIER" 2>&1 | grep -E "VIOLATION|KNOWN-FINDING|status=|INCONCLUSIVE" | cut -c1-400
  cp evidence/$c.json /tmp/seed_evidence_$c.json 2>/dev/null
done
git -C /repo reset -q ; git -C /repo checkout -- . ; git -C /repo status --short | head -3

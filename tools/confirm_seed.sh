#!/bin/sh
# usage: tools/confirm_seed.sh <dir with patch.diff and demo.py>
# Confirms in a scratch worktree (at the seed's base commit 6ac5ca4 and at /repo HEAD) that: demo passes without the
# patch, the patch applies, the existing suite passes with it, the demo fails with it.
D="$1"; BASE="${2:-HEAD}"
WT=/tmp/wt/confirm.$$
git -C /repo worktree add --detach "$WT" "$BASE" -q || exit 3
cd "$WT"
/venv/bin/python "$D/demo.py" >/tmp/confirm_clean.$$ 2>&1; RC_CLEAN=$?
git apply --3way "$D/patch.diff" 2>/dev/null || git apply "$D/patch.diff" || { echo "APPLY FAILED"; cd /; git -C /repo worktree remove --force "$WT"; exit 3; }
TESTS=$(/venv/bin/python -m pytest -q -p no:cacheprovider nptdms 2>&1 | tail -1)
/venv/bin/python "$D/demo.py" >/tmp/confirm_patched.$$ 2>&1; RC_PATCHED=$?
echo "base=$BASE demo_clean_rc=$RC_CLEAN demo_patched_rc=$RC_PATCHED tests: $TESTS"
tail -2 /tmp/confirm_patched.$$ | cut -c1-300
rm -f /tmp/confirm_clean.$$ /tmp/confirm_patched.$$
cd /; git -C /repo worktree remove --force "$WT"

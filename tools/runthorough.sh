#!/bin/sh
# usage: tools/runthorough.sh C01 C02 ...   -- thorough tiers one after the other on /repo as it is; evidence goes to scratch/thor_ev
# (the committed evidence/<id>.json files are those of the quick tier)
cd /verif
mkdir -p scratch/thor_ev
for c in "$@"; do
  S=$(date +%s)
  VERIF_EVIDENCE_DIR=/verif/scratch/thor_ev timeout 5400 ./vcheck $c --tier thorough > scratch/thor_$c.out 2>&1; RC=$?
  E=$(date +%s)
  echo "$c rc=$RC $(($E-$S))s $(grep -c KNOWN-FINDING scratch/thor_$c.out) known; $(grep -E 'tier=thorough' scratch/thor_$c.out | cut -c1-170)"
done

#!/bin/sh
cd /verif
for c in "$@"; do
  S=$(date +%s)
  timeout 3600 ./vcheck $c --tier thorough > scratch/thor_$c.out 2>&1; RC=$?
  E=$(date +%s)
  echo "$c rc=$RC $(($E-$S))s $(grep -c KNOWN-FINDING scratch/thor_$c.out) known; $(grep -E 'tier=thorough' scratch/thor_$c.out | cut -c1-170)"
  cp evidence/$c.json scratch/thor_evidence_$c.json 2>/dev/null
done

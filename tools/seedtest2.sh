#!/bin/sh
# usage: tools/seedtest2.sh <seed-dir-name> <tier> C04 [C19 ...]
# Applies the seed's patch in a scratch worktree of /repo (never touches /repo itself), runs the checks against that copy
# (VERIF_REPO), writes their evidence to a scratch directory, removes the worktree.
SEED="$1"; TIER="$2"; shift 2
P=/verif/seeded/$SEED/patch.diff; [ -f /verif/seeded/$SEED/patch_rebased.diff ] && P=/verif/seeded/$SEED/patch_rebased.diff
WT=/tmp/wt/st2.$$
git -C /repo worktree add --detach "$WT" HEAD -q || exit 3
(cd "$WT" && (git apply --3way "$P" 2>/dev/null || git apply "$P")) || { echo "PATCH DOES NOT APPLY"; git -C /repo worktree remove --force "$WT"; exit 3; }
cd /verif
mkdir -p /verif/scratch/ev.$$
for c in "$@"; do
  R=$(VERIF_REPO="$WT" VERIF_EVIDENCE_DIR=/verif/scratch/ev.$$ ./vcheck "$c" --tier "$TIER" 2>&1 | grep -E "VIOLATION|status=|INCONCLUSIVE" | head -3 | cut -c1-150 | tr '\n' '|')
  echo "$SEED vs $c: $R"
done
rm -rf /verif/scratch/ev.$$
git -C /repo worktree remove --force "$WT"

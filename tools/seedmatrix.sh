#!/bin/sh
# usage: tools/seedmatrix.sh "<seed> <check> [<check>...]" ...   (serial; patches /repo temporarily)
cd /verif
for spec in "$@"; do
  set -- $spec
  seed=$1; shift
  P=/verif/seeded/$seed/patch.diff; [ -f /verif/seeded/$seed/patch_rebased.diff ] && P=/verif/seeded/$seed/patch_rebased.diff
  for c in "$@"; do
    R=$(tools/seedtest.sh $P quick $c 2>&1 | grep -E "VIOLATION|status=|PATCH|INCONCLUSIVE" | head -3 | cut -c1-150 | tr '\n' '|')
    echo "$seed vs $c: $R"
  done
done

#!/bin/sh
# usage: tools/runall.sh quick|thorough [ids...]   -- runs the registered checks one after the other on /repo as it is
TIER="$1"; shift
cd /verif
IDS="$@"; [ -z "$IDS" ] && IDS="C01 C02 C03 C04 C05 C06 C07 C08 C09 C10 C11 C12 C13 C14 C15 C16 C17 C18 C19 C20"
for c in $IDS; do
  S=$(date +%s)
  ./vcheck $c --tier $TIER > scratch/run_$c.out 2>&1; RC=$?
  E=$(date +%s)
  echo "$c rc=$RC $(($E-$S))s $(grep -c KNOWN-FINDING scratch/run_$c.out) known; $(tail -1 scratch/run_$c.out | cut -c1-160)"
done

#!/usr/bin/env python3
"""Regenerates MANIFEST.json from the check modules (vf/checks/cNN.py: META['manifest'])."""
import ast, json, os, sys
HERE = os.path.dirname(os.path.dirname(os.path.abspath(__file__)))
props = [json.loads(l) for l in open(os.path.join(HERE, 'properties.jsonl'))]
NA = json.load(open(os.path.join(HERE, 'tools', 'not_applicable.json'))) if os.path.exists(os.path.join(HERE, 'tools', 'not_applicable.json')) else {}
checks, na = [], []
for p in props:
    pid = p['id']
    f = os.path.join(HERE, 'vf', 'checks', pid.lower() + '.py')
    mf = None
    if os.path.exists(f):
        tree = ast.parse(open(f).read())
        for node in tree.body:
            if isinstance(node, ast.Assign) and getattr(node.targets[0], 'id', None) == 'MANIFEST':
                mf = eval(compile(ast.Expression(node.value), f, 'eval'), {'dict': dict, '__builtins__': {}})
    if mf is None:
        na.append(dict(property_id=pid, reason=NA.get(pid, "check not built yet (work in progress; see DESIGN.md section 12)")))
        continue
    c = dict(property_id=pid, quick_cmd="./vcheck %s --tier quick" % pid, thorough_cmd="./vcheck %s --tier thorough" % pid,
             evidence_file="/verif/evidence/%s.json" % pid, replay_cmd_template="./vcheck --replay {path}", engine="sx",
             level_claimed=dict(category=mf.get('category', 'model_checking'), text=mf['text'], design_ref=mf.get('design_ref', 'DESIGN.md section 7 ' + pid)),
             level_note=mf['note'], technique=mf['technique'])
    checks.append(c)
m = dict(version=1, setup_cmd="./setup.sh",
         hooks=dict(guard="NPTDMS_VERIF", enable="none needed: the checks re-compile nptdms from /repo's working tree through an import hook (vf/loader.py); /repo carries no verification hooks", baseline_off_cmd="cd /repo && /venv/bin/python -m pytest -q -p no:cacheprovider nptdms", source_commits=[], add_only=True),
         engines=[dict(name="sx", path="vf/sx.py", serves_properties=[c['property_id'] for c in checks], kind_free_text="bounded path-exhaustive symbolic execution of the real nptdms modules (re-compiled from /repo source with every call site routed through a dispatcher), every path obligation decided by z3 (QF_LIA / QF_NRA / QF_BVFP); cvc5 as second opinion on floating-point queries")],
         checks=checks, notes="See DESIGN.md. Exit codes: 0 held, 1 VIOLATION (replayed on the plain package), 2 inconclusive (solver unknown, bound exceeded, vacuous bucket, non-reproducing counterexample) - never reported as success.",
         not_applicable=na)
json.dump(m, open(os.path.join(HERE, 'MANIFEST.json'), 'w'), indent=1)
print(len(checks), 'checks;', len(na), 'not applicable / not built')
try:
    import jsonschema
    jsonschema.validate(m, json.load(open('/root/.vp/MANIFEST.schema.json')))
    for c in checks:
        ef = c['evidence_file']
        if os.path.exists(ef):
            jsonschema.validate(json.load(open(ef)), json.load(open('/root/.vp/EVIDENCE.schema.json')))
    print('schema ok')
except ImportError:
    print('jsonschema not available')

"""Import hook: compile every nptdms.* module (tests excluded) from /repo's *current* source --
never from cached bytecode -- after one AST rewrite:

  * every call  f(a, ...)   becomes  __sx_call__(f, a, ...)        (super() etc. excepted)
  * "const" % x            becomes  __sx_mod__("const", x)
  * f"...{x}..."           becomes  __sx_fstr__(parts...)

With concrete arguments the dispatcher is the identity.  With symbolic arguments it substitutes
models for the C-level callees that would otherwise realise them (see dispatch.py).
"""
import ast
import importlib.abc
import importlib.machinery
import os
import sys

REPO = os.environ.get('VERIF_REPO', '/repo')
_SKIP = ('super', 'locals', 'globals', 'vars', 'dir', 'eval', 'exec')

STATE = {'call': None, 'mod': None, 'fstr': None, 'installed': False, 'modules': []}


def _name(id_):
    return ast.Name(id_, ast.Load())


class Rewrite(ast.NodeTransformer):
    def visit_Call(self, node):
        self.generic_visit(node)
        if isinstance(node.func, ast.Name) and node.func.id in _SKIP:
            return node
        return ast.copy_location(
            ast.Call(func=_name('__sx_call__'), args=[node.func] + node.args, keywords=node.keywords), node)

    def visit_BinOp(self, node):
        self.generic_visit(node)
        if isinstance(node.op, ast.Mod) and isinstance(node.left, ast.Constant) and isinstance(node.left.value, str):
            return ast.copy_location(
                ast.Call(func=_name('__sx_mod__'), args=[node.left, node.right], keywords=[]), node)
        return node

    def visit_JoinedStr(self, node):
        self.generic_visit(node)
        parts = []
        for v in node.values:
            if isinstance(v, ast.Constant):
                parts.append(v)
            else:  # FormattedValue
                parts.append(ast.Tuple(elts=[
                    v.value, ast.Constant(v.conversion),
                    v.format_spec if v.format_spec is not None else ast.Constant(None)], ctx=ast.Load()))
        return ast.copy_location(ast.Call(func=_name('__sx_fstr__'), args=parts, keywords=[]), node)


def _call(f, *a, **k):
    return STATE['call'](f, *a, **k)


def _mod(fmt, arg):
    return STATE['mod'](fmt, arg)


def _fstr(*parts):
    return STATE['fstr'](*parts)


def compile_source(data, path):
    tree = ast.parse(data, path)
    tree = Rewrite().visit(tree)
    ast.fix_missing_locations(tree)
    return compile(tree, path, 'exec', dont_inherit=True)


class Loader(importlib.machinery.SourceFileLoader):
    def source_to_code(self, data, path, *, _optimize=-1):
        return compile_source(data, path)

    def get_code(self, fullname):
        path = self.get_filename(fullname)
        return compile_source(self.get_data(path), path)

    def exec_module(self, module):
        module.__dict__['__sx_call__'] = _call
        module.__dict__['__sx_mod__'] = _mod
        module.__dict__['__sx_fstr__'] = _fstr
        STATE['modules'].append(module.__name__)
        super().exec_module(module)


class Finder(importlib.abc.MetaPathFinder):
    def find_spec(self, fullname, path, target=None):
        if fullname != 'nptdms' and not fullname.startswith('nptdms.'):
            return None
        if fullname.startswith('nptdms.test'):
            return None
        if fullname == 'nptdms':
            origin = os.path.join(REPO, 'nptdms', '__init__.py')
            spec = importlib.machinery.ModuleSpec(
                fullname, Loader(fullname, origin), origin=origin, is_package=True)
            spec.submodule_search_locations = [os.path.join(REPO, 'nptdms')]
            spec.has_location = True
            return spec
        spec = importlib.machinery.PathFinder.find_spec(fullname, path)
        if spec is None or not spec.origin or not spec.origin.endswith('.py'):
            return spec
        spec.loader = Loader(fullname, spec.origin)
        return spec


def install(call, mod, fstr):
    """Install the hook (must happen before nptdms is imported in this process)."""
    if any(m == 'nptdms' or m.startswith('nptdms.') for m in sys.modules):
        raise RuntimeError("nptdms imported before the sx loader was installed")
    STATE.update(call=call, mod=mod, fstr=fstr)
    if not STATE['installed']:
        sys.meta_path.insert(0, Finder())
        STATE['installed'] = True
    sys.dont_write_bytecode = True

"""Independent encoder + oracle for TDMS segments holding DAQmx raw data (format-changing and
digital-line scalers).  Shares no code with nptdms."""
import struct
from . import tdmsmodel as tm

FORMAT_CHANGING, DIGITAL_LINE = 0x1269, 0x126A
# DAQmx scaler type codes -> (struct char, size, numpy dtype)
DTYPES = {0: ('B', 1, 'uint8'), 1: ('b', 1, 'int8'), 2: ('H', 2, 'uint16'), 3: ('h', 2, 'int16'), 4: ('L', 4, 'uint32'),
          5: ('l', 4, 'int32'), 6: ('Q', 8, 'uint64'), 7: ('q', 8, 'int64'), 8: ('f', 4, 'float32'), 9: ('d', 8, 'float64')}


class Scaler:
    def __init__(self, scale_id, tcode, buffer, offset, digital=False):
        self.scale_id, self.tcode, self.buffer, self.offset, self.digital = scale_id, tcode, buffer, offset, digital


class Chan:
    def __init__(self, path, scalers, nv, props=()):
        self.path, self.scalers, self.nv, self.props = path, scalers, nv, list(props)


def _u(v, w, big):
    return int(v).to_bytes(w, 'big' if big else 'little')


def encode(segments, seed=0):
    """segments: list of dict(chans=[Chan], widths=[w0, w1..], nchunks, big, trunc=0, unknown_len=False).
    Returns (bytes, info) with info['channels'][path][scale_id] = list of little-endian value images per row kept whole,
    info['segs'] = layout (start, data_start, end, chunk_size, rows per buffer...)."""
    out = bytearray()
    info = dict(channels={}, segs=[], props={})
    counter = seed
    for si, seg in enumerate(segments):
        big = seg.get('big', False)
        widths = seg['widths']
        chans = seg['chans']
        md = bytearray()
        md += _u(len(chans), 4, big)
        for ch in chans:
            pb = ch.path.encode('utf-8')
            md += _u(len(pb), 4, big) + pb
            digital = any(s.digital for s in ch.scalers)
            md += _u(DIGITAL_LINE if digital else FORMAT_CHANGING, 4, big)
            md += _u(0xFFFFFFFF, 4, big)                     # DAQmx raw data type
            md += _u(1, 4, big) + _u(ch.nv, 8, big) + _u(len(ch.scalers), 4, big)
            for s in ch.scalers:
                if digital:
                    md += _u(s.tcode, 4, big) + _u(s.buffer, 4, big) + _u(s.offset, 4, big) + _u(0, 1, big) + _u(s.scale_id, 4, big)
                else:
                    md += _u(s.tcode, 4, big) + _u(s.buffer, 4, big) + _u(s.offset, 4, big) + _u(0, 4, big) + _u(s.scale_id, 4, big)
            md += _u(len(widths), 4, big)
            for w in widths:
                md += _u(w, 4, big)
            md += _u(len(ch.props), 4, big)
            for (name, tcode, value) in ch.props:
                nb = name.encode('utf-8')
                md += _u(len(nb), 4, big) + nb + _u(tcode, 4, big) + tm.prop_value_bytes(tcode, value, big)
                info['props'].setdefault(ch.path, {})[name] = (tcode, value)
        # rows per buffer = max number of values of the channels using it
        rows = [0] * len(widths)
        for ch in chans:
            for s in ch.scalers:
                rows[s.buffer] = max(rows[s.buffer], ch.nv)
        chunk_size = sum(r * w for r, w in zip(rows, widths))
        data = bytearray()
        chunk_bufs = []
        for ci in range(seg['nchunks']):
            bufs = []
            for bi, (r, w) in enumerate(zip(rows, widths)):
                b = bytearray()
                for _ in range(r * w):
                    counter += 1
                    b.append((counter * 73 + (counter >> 4) * 29 + 17) % 256)
                bufs.append(bytes(b))
                data += b
            chunk_bufs.append(bufs)
        full_len = len(md) + len(data)
        if seg.get('trunc'):
            data = data[:len(data) - seg['trunc']]
        toc = tm.TOC_META | tm.TOC_NEWOBJ | tm.TOC_RAW | tm.TOC_DAQMX | (tm.TOC_BIG if big else 0)
        start = len(out)
        out += b'TDSm' + _u(toc, 4, False) + _u(4713, 4, big) + \
            _u(tm.UNKNOWN_LEN if seg.get('unknown_len') else full_len, 8, big) + _u(len(md), 8, big) + md
        data_start = len(out)
        out += data
        info['segs'].append(dict(start=start, data_start=data_start, end=len(out), chunk_size=chunk_size, rows=rows, widths=widths,
                                 nchunks=seg['nchunks'], declared_end=start + 28 + full_len))
        # oracle: values per scaler, complete rows only (a truncated final chunk keeps whole rows, buffer after buffer)
        avail = len(data)
        for ci, bufs in enumerate(chunk_bufs):
            base = ci * chunk_size
            boff = 0
            kept_rows = []
            for bi, (r, w) in enumerate(zip(rows, widths)):
                have = max(0, min(r * w, avail - (base + boff)))
                kept_rows.append(have // w if w else 0)
                boff += r * w
            # a buffer after a truncated one holds nothing
            for bi in range(1, len(kept_rows)):
                if kept_rows[bi - 1] < rows[bi - 1]:
                    kept_rows[bi] = 0
            for ch in chans:
                bidx = sorted(set(s.buffer for s in ch.scalers))
                n_keep = min(ch.nv, min(kept_rows[b] for b in bidx)) if bidx else 0
                for s in ch.scalers:
                    c_, size, _ = DTYPES[s.tcode]
                    vals = info['channels'].setdefault(ch.path, {}).setdefault(s.scale_id, [])
                    w = widths[s.buffer]
                    for r in range(n_keep):
                        if s.digital:
                            byte = bufs[s.buffer][r * w + s.offset // 8: r * w + s.offset // 8 + size]
                            v = int.from_bytes(byte, 'big' if big else 'little')
                            bit = (v >> (s.offset % 8)) & 1
                            vals.append(int(bit).to_bytes(size, 'little'))
                        else:
                            raw = bufs[s.buffer][r * w + s.offset: r * w + s.offset + size]
                            vals.append(raw[::-1] if big else raw)
                info['channels'].setdefault(ch.path, {})
        for ch in chans:
            info.setdefault('dtypes', {}).setdefault(ch.path, {})
            for s in ch.scalers:
                info['dtypes'][ch.path][s.scale_id] = DTYPES[s.tcode][2]
    return bytes(out), info

"""Common driver of all checks: task fan-out over the cores, aggregation, vacuity check, replay
gate against the plain (un-instrumented) package, known-findings handling, evidence, exit code.

Exit codes: 0 property held on everything explored (or only listed known findings);
            1 a reproducing violation that known_findings.json does not list (VIOLATION line);
            2 inconclusive (solver unknown, bound exceeded, vacuous bucket, non-reproducing
              counterexample = engine/model defect).  Never reported as success."""
import importlib
import json
import multiprocessing as mp
import os
import subprocess
import sys
import time
import traceback

HERE = os.path.dirname(os.path.dirname(os.path.abspath(__file__)))
NPROC = int(os.environ.get('VERIF_NPROC', str(min(16, os.cpu_count() or 1))))


def load_check(pid):
    return importlib.import_module('vf.checks.%s' % pid.lower())


def _worker_init(instrument):
    os.environ['PYTHONHASHSEED'] = '0'
    import logging
    if instrument:
        from . import dispatch
        dispatch.install()
    try:
        from nptdms.log import log_manager
        log_manager.set_level(logging.CRITICAL)
    except Exception:
        pass
    import warnings
    warnings.filterwarnings('ignore')


def _worker_run(arg):
    pid, task = arg
    t0 = time.time()
    try:
        mod = load_check(pid)
        res = mod.run_task(task)
        res.setdefault('task', task)
        res['task_wall_s'] = time.time() - t0
        from . import dispatch
        res['functions'] = dispatch.functions_entered()
        dispatch.COUNTS.clear()
        return res
    except BaseException as e:      # noqa - report, never hide
        return dict(task=task, crashed=''.join(traceback.format_exception_only(type(e), e))[:400] +
                    ' @ ' + traceback.format_exc()[-900:], task_wall_s=time.time() - t0)


def run_tasks(pid, tasks, instrument=True, nproc=None, deadline=None):
    nproc = nproc or NPROC
    ctx = mp.get_context('fork')
    results = []
    if nproc == 1 or len(tasks) <= 1:
        _worker_init(instrument)
        for t in tasks:
            results.append(_worker_run((pid, t)))
        return results
    with ctx.Pool(min(nproc, len(tasks)), initializer=_worker_init, initargs=(instrument,), maxtasksperchild=200) as pool:
        for r in pool.imap_unordered(_worker_run, [(pid, t) for t in tasks], chunksize=1):
            results.append(r)
    return results


def plain_python_env():
    env = dict(os.environ)
    env['PYTHONDONTWRITEBYTECODE'] = '1'
    env['PYTHONHASHSEED'] = '0'
    env['VF_PLAIN'] = '1'
    repo = os.environ.get('VERIF_REPO')
    if repo:            # seed testing against a scratch copy of the repository: the plain package must come from there too
        env['PYTHONPATH'] = repo + (os.pathsep + env['PYTHONPATH'] if env.get('PYTHONPATH') else '')
    return env


def replay_batch(pid, artefacts, timeout=900):
    """Replay artefacts against the plain package in a fresh interpreter.  Returns list of
    results (None = property holds on this input, dict = reproduced violation)."""
    if not artefacts:
        return []
    import tempfile
    d = tempfile.mkdtemp(prefix='vfreplay', dir=os.path.join(HERE, 'replays'))
    fin, fout = os.path.join(d, 'in.json'), os.path.join(d, 'out.json')
    try:
        with open(fin, 'w') as f:
            json.dump(dict(pid=pid, artefacts=artefacts), f)
        p = subprocess.run([sys.executable, '-m', 'vf.cli', '--replay-batch', fin, fout], cwd=HERE,
                           env=plain_python_env(), capture_output=True, text=True, timeout=timeout)
        if p.returncode != 0 or not os.path.exists(fout):
            raise RuntimeError("replay subprocess failed: %s" % (p.stderr[-1500:],))
        with open(fout) as f:
            return json.load(f)
    finally:
        for fn in (fin, fout):
            if os.path.exists(fn):
                os.unlink(fn)
        try:
            os.rmdir(d)
        except OSError:
            pass


def do_replay_batch(fin, fout):
    """(runs in the fresh interpreter, plain nptdms)"""
    import logging
    import warnings
    warnings.filterwarnings('ignore')
    with open(fin) as f:
        job = json.load(f)
    mod = load_check(job['pid'])
    from nptdms.log import log_manager
    log_manager.set_level(logging.CRITICAL)
    out = []
    for a in job['artefacts']:
        try:
            out.append(mod.replay(a))
        except Exception as e:
            out.append(dict(replay_error=repr(e)[:300], trace=traceback.format_exc()[-600:]))
    with open(fout, 'w') as f:
        json.dump(out, f, default=str)


def load_known():
    with open(os.path.join(HERE, 'known_findings.json')) as f:
        return json.load(f)


def run_check(pid, tier, seed):
    t0 = time.time()
    mod = load_check(pid)
    meta = mod.META
    tasks = mod.tasks(tier, seed)
    instrument = meta.get('instrument', True)
    results = run_tasks(pid, tasks, instrument=instrument)
    agg = dict(paths=0, aborted=0, queries=0, solver_s=0.0, obligations=0, discharged=0,
               concretisations=0, truncated=0, tasks=len(tasks))
    notes, functions, samples, cands, inconclusive, crashed = {}, {}, [], [], [], []
    for r in results:
        if 'crashed' in r:
            crashed.append(dict(task=r['task'], error=r['crashed']))
            continue
        for k in ('paths', 'aborted', 'queries', 'solver_s', 'obligations', 'discharged', 'concretisations'):
            agg[k] += r.get(k, 0)
        if r.get('truncated'):
            agg['truncated'] += 1
            inconclusive.append(dict(task=r['task'], why='path/time budget exhausted before the space was covered'))
        for n, c in r.get('notes', {}).items():
            notes[n] = notes.get(n, 0) + c
        for n, c in r.get('functions', {}).items():
            functions[n] = functions.get(n, 0) + c
        for s in r.get('samples', [])[:2]:
            if len(samples) < 40:
                samples.append(dict(task=r['task'], **s))
        for v in r.get('violations', []):
            cands.append(dict(task=r['task'], **v))
        for m in r.get('inconclusive', []):
            inconclusive.append(dict(task=r['task'], why=m))
    # ---- vacuity: every declared coverage bucket must have been reached by some path
    missing = [b for b in meta.get('buckets', {}).get(tier, meta.get('buckets', {}).get('all', [])) if not notes.get(b)]
    # ---- replay gate
    lines, new_violations, known_hits, nonrepro = [], [], {}, []
    known = load_known()
    known_sigs = {(k['property'], k['signature']): k for k in known.get('findings', [])}
    by_sig = {}
    for c in cands:
        c['sig'] = mod.signature(c)
        by_sig.setdefault(c['sig'], []).append(c)
    to_replay = []
    for sig, cs in sorted(by_sig.items()):
        cs.sort(key=lambda c: json.dumps(c.get('inputs', {}), sort_keys=True, default=str))
        for c in cs[:meta.get('replays_per_signature', 6)]:
            to_replay.append(c)
    rep = replay_batch(pid, [dict(task=c['task'], inputs=c.get('inputs', {}), what=c.get('what')) for c in to_replay]) \
        if to_replay else []
    # a candidate that did not reproduce inside the batch is tried once more alone in its own fresh interpreter (module-level
    # state left behind by the replays before it must not decide the outcome); at most 8 such retries per run
    retries = 0
    for k, (c, r) in enumerate(zip(to_replay, list(rep))):
        if r is None and retries < 8:
            retries += 1
            try:
                rep[k] = replay_batch(pid, [dict(task=c['task'], inputs=c.get('inputs', {}), what=c.get('what'))])[0]
            except Exception:
                pass
    replay_dir = os.path.join(HERE, 'replays')
    confirmed_sigs = {}
    for c, r in zip(to_replay, rep):
        if r is None or 'replay_error' in (r or {}):
            nonrepro.append(dict(candidate=c, replay=r))
            continue
        rsig = r.get('sig', c['sig'])
        confirmed_sigs.setdefault(rsig, []).append((c, r))
    for rsig, items in sorted(confirmed_sigs.items()):
        c, r = items[0]
        k = known_sigs.get((pid, rsig))
        if k is not None:
            known_hits[rsig] = dict(count=len(by_sig.get(c['sig'], items)), what=k['what'], example=r)
            lines.append("KNOWN-FINDING: property=%s %s" % (pid, k['what']))
        else:
            path = os.path.join(replay_dir, '%s_%s.json' % (pid, _safe(rsig)))
            with open(path, 'w') as f:
                json.dump(dict(pid=pid, task=c['task'], inputs=c.get('inputs', {}), what=c.get('what'),
                               signature=rsig, observed=r), f, indent=1, default=str)
            new_violations.append(dict(signature=rsig, replay=path, observed=r))
            lines.append("VIOLATION property=%s replay=%s" % (pid, path))
    # a signature with candidates none of which reproduced -> engine/model defect
    unre = [n for n in nonrepro if mod.signature(n['candidate']) not in
            {mod.signature(c) for items in confirmed_sigs.values() for (c, _) in items}]
    # ---- validate a sample of passing paths against the plain package (model validation)
    validated, validation_failures = 0, []
    val = [dict(task=s['task'], inputs=s.get('inputs_example', {}), what='sample') for s in samples
           if s.get('inputs_example') is not None][:meta.get('validate_samples', 12)]
    if val and hasattr(mod, 'replay') and meta.get('validate_samples', 12):
        try:
            vr = replay_batch(pid, val)
            for a, r in zip(val, vr):
                if r is None:
                    validated += 1
                else:
                    rs = (r or {}).get('sig')
                    if rs is not None and (pid, rs) in known_sigs:
                        validated += 1
                    else:
                        validation_failures.append(dict(artefact=a, replay=r))
        except Exception as e:
            validation_failures.append(dict(error=repr(e)[:300]))
    wall = time.time() - t0
    status = 0
    if new_violations:
        status = 1
    elif crashed or inconclusive or missing or unre or validation_failures:
        status = 2
    cov = dict(
        states=max(agg['paths'], 1), transitions=max(agg['queries'], 1),
        traces_validated_against_impl=validated + sum(len(v) for v in confirmed_sigs.values()),
        samples=samples[:12] or [dict(note='no path sample recorded')],
        evaluations=max(agg['paths'], 1),
        distinct_nontrivial=max(agg['discharged'], 2) if agg['discharged'] >= 2 else 2,
        rule=meta.get('rule', 'one evaluation = one feasible path of the real code inside the bounds; non-trivial = '
                      'path whose obligations were discharged by at least one solver query'),
        obligations=agg['obligations'], discharged=agg['discharged'],
        exhaustive=(agg['truncated'] == 0 and not inconclusive and not crashed),
        explanation=meta.get('explanation', ''),
        engine='sx (z3 %s) path-exhaustive symbolic execution of the instrumented real modules' % _z3v(),
        tasks=agg['tasks'], feasible_paths=agg['paths'], aborted_paths=agg['aborted'],
        solver_queries=agg['queries'], solver_time_s=round(agg['solver_s'], 2),
        concretisations=agg['concretisations'],
        bounds=meta.get('bounds', {}).get(tier), outside_bounds=meta.get('outside', []),
        functions_encoded=meta.get('functions', []),
        functions_entered=dict(sorted(functions.items(), key=lambda kv: -kv[1])[:60]),
        stubs=meta.get('stubs', []), vacuity=dict(required=meta.get('buckets', {}), reached=notes, missing=missing),
        known_findings=known_hits, new_violations=new_violations,
        non_reproducing_candidates=unre[:5], inconclusive=inconclusive[:10], crashed=crashed[:5],
        sample_validation=dict(replayed=len(val), agreed=validated, failures=validation_failures[:5]),
        candidates=len(cands), status=status,
    )
    ev = dict(property_id=pid, tier=tier, seed=seed, level=meta.get('level', 'model_checking'), coverage=cov,
              assumptions=meta.get('assumptions', []), wall_s=round(wall, 2), violations=len(new_violations))
    evdir = os.environ.get('VERIF_EVIDENCE_DIR') or os.path.join(HERE, 'evidence')
    os.makedirs(evdir, exist_ok=True)
    with open(os.path.join(evdir, '%s.json' % pid), 'w') as f:
        json.dump(ev, f, indent=1, default=str)
    for ln in lines:
        print(ln)
    print("%s tier=%s tasks=%d paths=%d queries=%d obligations=%d/%d solver=%.1fs wall=%.1fs status=%s" % (
        pid, tier, agg['tasks'], agg['paths'], agg['queries'], agg['discharged'], agg['obligations'],
        agg['solver_s'], wall, {0: 'HELD', 1: 'VIOLATION', 2: 'INCONCLUSIVE'}[status]))
    if status == 2:
        for x in (crashed[:3] + inconclusive[:3]):
            print("INCONCLUSIVE:", json.dumps(x, default=str)[:700])
        if missing:
            print("INCONCLUSIVE: vacuous buckets", missing)
        for x in unre[:3]:
            print("INCONCLUSIVE: counterexample did not reproduce on the plain package:", json.dumps(x, default=str)[:700])
        for x in validation_failures[:3]:
            print("INCONCLUSIVE: sample validation failed:", json.dumps(x, default=str)[:700])
    return status


def _safe(s):
    return ''.join(ch if ch.isalnum() or ch in '-_' else '_' for ch in s)[:80]


def _z3v():
    try:
        import z3
        return z3.get_version_string()
    except Exception:
        return '?'


def replay_file(path):
    with open(path) as f:
        a = json.load(f)
    r = replay_batch(a['pid'], [dict(task=a['task'], inputs=a['inputs'], what=a.get('what'))])[0]
    if r is None:
        print("replay: property holds on this input (not reproduced)")
        return 0
    print("replay: reproduced: %s" % json.dumps(r, default=str)[:1500])
    print("VIOLATION property=%s replay=%s" % (a['pid'], path))
    return 1

"""Symbolic strings: concrete length on each path, items are 1-char str or SymChar (symbolic code point)."""
import z3
from .sx import Ctx, SymBool, SymInt, mk_bool


class SymChar:
    __slots__ = ('e',)

    def __init__(self, e):
        self.e = e

    def __eq__(self, o):
        if isinstance(o, SymChar):
            return mk_bool(self.e == o.e)
        if isinstance(o, str):
            return mk_bool(self.e == ord(o)) if len(o) == 1 else False
        if isinstance(o, SymStr):
            return o == self
        if o is None:
            return False
        return NotImplemented

    def __ne__(self, o):
        r = self.__eq__(o)
        if r is NotImplemented:
            return r
        return (not r) if isinstance(r, bool) else mk_bool(z3.Not(r.e))

    def __iter__(self):
        yield self

    def __len__(self):
        return 1

    __hash__ = None

    def __repr__(self):
        return "<symchar %s>" % self.e


def _items(x):
    if isinstance(x, SymStr):
        return list(x.items)
    if isinstance(x, SymChar):
        return [x]
    if isinstance(x, str):
        return list(x)
    raise TypeError(type(x))


class SymStr:
    __slots__ = ('items',)

    def __init__(self, items):
        self.items = list(items)

    def __len__(self):
        return len(self.items)

    def __iter__(self):
        return iter(self.items)

    def __getitem__(self, i):
        if isinstance(i, slice):
            return SymStr(self.items[i])
        return self.items[i]

    def __add__(self, o):
        try:
            return SymStr(self.items + _items(o))
        except TypeError:
            return NotImplemented

    def __radd__(self, o):
        try:
            return SymStr(_items(o) + self.items)
        except TypeError:
            return NotImplemented

    def replace(self, old, new):
        if not (isinstance(old, str) and len(old) == 1 and isinstance(new, str)):
            raise NotImplementedError("SymStr.replace with %r" % (old,))
        out = []
        for it in self.items:
            if it == old:               # forks on a symbolic char
                out.extend(new)
            else:
                out.append(it)
        return SymStr(out)

    def __eq__(self, o):
        if o is None:
            return False
        try:
            oi = _items(o)
        except TypeError:
            return NotImplemented
        if len(oi) != len(self.items):
            return False
        conj = []
        for a, b in zip(self.items, oi):
            r = (a == b)
            if r is False:
                return False
            if r is True:
                continue
            conj.append(r.e)
        return mk_bool(z3.And(*conj)) if conj else True

    def __ne__(self, o):
        r = self.__eq__(o)
        if r is NotImplemented:
            return r
        return (not r) if isinstance(r, bool) else mk_bool(z3.Not(r.e))

    __hash__ = None

    def expr_eq(self, o):
        r = self == o
        if r is NotImplemented:
            return z3.BoolVal(False)
        return z3.BoolVal(r) if isinstance(r, bool) else r.e

    def concrete(self, model):
        out = []
        for it in self.items:
            if isinstance(it, str):
                out.append(it)
            else:
                out.append(chr(model.eval(it.e, model_completion=True).as_long()))
        return ''.join(out)

    def encode(self, encoding='utf-8', errors='strict'):
        """UTF-8 bytes; forks on the byte-length class of every symbolic character."""
        from .stream import SymByte, norm_bytes
        if encoding.lower().replace('_', '-') not in ('utf-8', 'utf8'):
            raise NotImplementedError(encoding)
        out = []
        for it in self.items:
            if isinstance(it, str):
                out.extend(it.encode('utf-8'))
                continue
            e = it.e
            if SymInt.mk(e) < 0x80:
                bs = [e]
            elif SymInt.mk(e) < 0x800:
                bs = [0xC0 + e / 64, 0x80 + e % 64]
            elif SymInt.mk(e) < 0x10000:
                if (SymInt.mk(e) >= 0xD800) & (SymInt.mk(e) <= 0xDFFF):
                    raise UnicodeEncodeError('utf-8', '?', 0, 1, 'surrogates not allowed')
                bs = [0xE0 + e / 4096, 0x80 + (e / 64) % 64, 0x80 + e % 64]
            else:
                bs = [0xF0 + e / 262144, 0x80 + (e / 4096) % 64, 0x80 + (e / 64) % 64, 0x80 + e % 64]
            for j, b in enumerate(bs):
                out.append(SymByte(e=b, origin=(it, j, len(bs))))
        return norm_bytes(out)

    def utf8_len(self):
        """Number of bytes of the UTF-8 encoding (int | SymInt)."""
        total = 0
        for it in self.items:
            if isinstance(it, str):
                total = total + len(it.encode('utf-8'))
            else:
                e = it.e
                total = total + SymInt.mk(z3.If(e < 0x80, 1, z3.If(e < 0x800, 2, z3.If(e < 0x10000, 3, 4))))
        return total

    def __repr__(self):
        return "<symstr len %d>" % len(self.items)


def sym_str(ctx, name, n, lo=0, hi=0x10FFFF, no_surrogates=True):
    cs = []
    for i in range(n):
        c = z3.Int('%s_%d' % (name, i))
        ctx.inputs['%s_%d' % (name, i)] = c
        ctx.add(z3.And(c >= lo, c <= hi))
        if no_surrogates:
            ctx.add(z3.Or(c < 0xD800, c > 0xDFFF))
        cs.append(c)
    return SymStr([SymChar(c) for c in cs]), cs

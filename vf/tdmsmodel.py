"""Independent logical model of a TDMS file, an encoder (model -> bytes / stream regions) and the
oracle (model -> what a correct reader must return).  Written from the TDMS format description;
shares no code with nptdms and never imports it.

Model
-----
A file is a list of Seg.  A Seg lists Obj headers (path, header kind, optional full index,
properties) and says how many chunks of raw data follow.  The *oracle* is the generator's own
bookkeeping: while encoding it applies the format's inheritance rules (object list carry-over,
"same as previous" / "no data" headers, metadata-less segments), plants distinct recognisable
values for every (segment, chunk, object) and records, per channel, the expected values in file
order together with the byte extent of every chunk slice.
"""
import struct
from fractions import Fraction

TOC_META, TOC_NEWOBJ, TOC_RAW, TOC_INTER, TOC_BIG, TOC_DAQMX = 2, 4, 8, 32, 64, 128
NO_DATA, SAME = 0xFFFFFFFF, 0x00000000
UNKNOWN_LEN = 0xFFFFFFFFFFFFFFFF

# code -> (name, size, struct char, numpy dtype string)
TYPES = {
    1: ('Int8', 1, 'b', 'int8'), 2: ('Int16', 2, 'h', 'int16'), 3: ('Int32', 4, 'l', 'int32'),
    4: ('Int64', 8, 'q', 'int64'), 5: ('Uint8', 1, 'B', 'uint8'), 6: ('Uint16', 2, 'H', 'uint16'),
    7: ('Uint32', 4, 'L', 'uint32'), 8: ('Uint64', 8, 'Q', 'uint64'),
    9: ('SingleFloat', 4, 'f', 'float32'), 10: ('DoubleFloat', 8, 'd', 'float64'),
    0x19: ('SingleFloatWithUnit', 4, 'f', 'float32'), 0x1A: ('DoubleFloatWithUnit', 8, 'd', 'float64'),
    0x20: ('String', None, None, 'object'), 0x21: ('Boolean', 1, 'b', 'bool'),
    0x44: ('TimeStamp', 16, None, 'datetime64[us]'),
    0x08000c: ('ComplexSingleFloat', 8, None, 'complex64'),
    0x10000d: ('ComplexDoubleFloat', 16, None, 'complex128'),
}
NUMERIC = [1, 2, 3, 4, 5, 6, 7, 8, 9, 10, 0x19, 0x1A, 0x21]
ALL_READABLE = sorted(TYPES)
FPS_US = (10 ** -6) / 2 ** -64        # documented representation change for timestamps


class Obj:
    def __init__(self, path, kind='full', tcode=3, nv=0, props=(), strings=None, values=None):
        self.path, self.kind, self.tcode, self.nv = path, kind, tcode, nv
        self.props = list(props)        # [(name, tcode, python value)]
        self.strings = strings          # optional explicit list (per chunk) of lists of str
        self.values = values            # optional explicit list (per chunk) of lists of little-endian value images (bytes)

    def key(self):
        return (self.path, self.kind, self.tcode, self.nv, tuple(map(repr, self.props)))


class Seg:
    def __init__(self, objs=(), nchunks=1, meta=True, newobj=True, inter=False, big=False,
                 trunc=0, unknown_len=False, version=4713, raw_flag=True, pad=0):
        self.objs, self.nchunks = list(objs), nchunks
        self.pad = pad          # bytes of padding between lead-in and raw data of a segment WITHOUT metadata
        self.meta, self.newobj, self.inter, self.big = meta, newobj, inter, big
        self.trunc, self.unknown_len, self.version, self.raw_flag = trunc, unknown_len, version, raw_flag


class Invalid(Exception):
    """The model describes an encoding the format forbids."""


# ----------------------------------------------------------------------------- value planting
class Planter:
    """Deterministic distinct values per type; `n` counts planted values."""

    def __init__(self, seed=0):
        self.n = seed

    def raw(self, tcode):
        """little-endian byte image of the next value of the given fixed-size type"""
        self.n += 1
        c = self.n
        size = TYPES[tcode][1]
        if tcode == 0x21:
            return bytes([c % 2])
        if tcode == 0x44:
            frac = (c * 0x9E3779B97F4A7C15 + 0x1234567) % 2 ** 64
            if c % 5 == 0:
                frac = [0, 2 ** 64 - 1, 2 ** 63, 1, FPS_INT * 7][c // 5 % 5]
            sec = (c * 7919 - 3000) if c % 3 else -(c * 104729)
            return struct.pack('<Qq', frac, sec)
        special = {
            9: [0x7FC00001, 0xFF800000, 0x00000001, 0x80000000], 0x19: [0x7FC00001, 0xFF800000, 0x00000001],
            10: [0x7FF8000000000001, 0xFFF0000000000000, 1, 0x8000000000000000],
            0x1A: [0x7FF8000000000001, 0xFFF0000000000000, 1],
        }
        if tcode in special and c % 4 == 0:
            v = special[tcode][(c // 4) % len(special[tcode])]
            return v.to_bytes(size, 'little')
        if tcode in (1, 2, 3, 4, 5, 6, 7, 8) and c % 6 == 0:
            ext = [0, 2 ** (8 * size) - 1, 2 ** (8 * size - 1), 2 ** (8 * size - 1) - 1]
            return ext[(c // 6) % 4].to_bytes(size, 'little')
        return bytes((c * 37 + k * 101 + 11 + (c >> 3) * (k + 1)) % 256 for k in range(size))

    def string(self, nbytes=None):
        self.n += 1
        c = self.n
        pool = ['', 'a', 'bc', 'é', 'x€y', 'TÜV', '\U0001F600', 'q r', "it's", '/']
        if nbytes is None:
            return pool[c % len(pool)]
        return ''.join(chr(ord('a') + (c + i) % 26) for i in range(nbytes))


FPS_INT = 18446744073709          # ~ one microsecond in 2^-64 fractions (boundary planting)


def to_endian(raw_le, tcode, big):
    """Re-encode a little-endian value image in the segment's byte order."""
    if not big:
        return raw_le
    if tcode == 0x44:                      # (fractions u8, seconds i8) -> big endian: seconds first
        frac, sec = raw_le[:8], raw_le[8:]
        return sec[::-1] + frac[::-1]
    if tcode == 0x08000c:
        return raw_le[:4][::-1] + raw_le[4:][::-1]
    if tcode == 0x10000d:
        return raw_le[:8][::-1] + raw_le[8:][::-1]
    return raw_le[::-1]


def py_value(raw_le, tcode):
    """Python-level meaning of a little-endian value image (used in samples / list comparisons)."""
    if tcode == 0x44:
        frac, sec = struct.unpack('<Qq', raw_le)
        return ('ts', sec, frac)
    if tcode == 0x21:
        return bool(raw_le[0])
    if tcode in (0x08000c, 0x10000d):
        return ('complex', raw_le.hex())
    ch = TYPES[tcode][2]
    if ch in 'fd':
        return ('float', raw_le.hex())
    return struct.unpack('<' + ch, raw_le)[0]


def ts_to_us(sec, frac):
    """Documented conversion of a raw timestamp to microseconds since 1904 (float division, truncation)."""
    return sec * 10 ** 6 + int(frac / FPS_US)


# ----------------------------------------------------------------------------- emitters
class BytesEmitter:
    def __init__(self):
        self.buf = bytearray()

    @property
    def pos(self):
        return len(self.buf)

    def raw(self, b):
        self.buf += b

    def uint(self, v, width, big, name=''):
        self.buf += int(v).to_bytes(width, 'big' if big else 'little')

    def sint(self, v, width, big, name=''):
        self.buf += int(v).to_bytes(width, 'big' if big else 'little', signed=True)

    def bytes(self):
        return bytes(self.buf)


def emit_string(em, s, big):
    b = s.encode('utf-8')
    em.uint(len(b), 4, big)
    em.raw(b)


def prop_value_bytes(tcode, value, big):
    if tcode == 0x20:
        b = value.encode('utf-8')
        return len(b).to_bytes(4, 'big' if big else 'little') + b
    if tcode == 0x44:
        sec, frac = value
        return to_endian(struct.pack('<Qq', frac, sec), 0x44, big)
    if tcode == 0x21:
        return bytes([1 if value else 0])
    ch = TYPES[tcode][2]
    return struct.pack(('>' if big else '<') + ch, value)


# ----------------------------------------------------------------------------- encoder + oracle
class ChannelExp:
    def __init__(self, path):
        self.path = path
        self.tcode = None
        self.raw = []          # per value: little-endian byte image, or str for strings
        self.extents = []      # per (segment, chunk): dict(seg, chunk, start, nbytes, first, count)
        self.seg_counts = {}   # segment index -> number of values

    def __len__(self):
        return len(self.raw)


class Encoded:
    """Result of encoding: bytes, index-file bytes and everything the oracle knows."""

    def __init__(self):
        self.data = b''
        self.index = b''
        self.segs = []           # dict(start, data_start, end, meta, nchunks, chunk_size, objs=[(path, tcode, nv, size)], inter, big)
        self.order = []          # object paths in order of first appearance
        self.channels = {}       # path -> ChannelExp
        self.props = {}          # path -> ordered dict name -> (tcode, value)
        self.version = None


def split_path(path):
    """Independent TDMS path parser: returns [] for root, [group] or [group, channel]."""
    if path == '/':
        return []
    out, i, n = [], 0, len(path)
    while i < n:
        if path[i] != '/' or i + 1 >= n or path[i + 1] != "'":
            raise ValueError("bad path %r" % path)
        i += 2
        cur = []
        while True:
            if i >= n:
                raise ValueError("bad path %r" % path)
            if path[i] == "'":
                if i + 1 < n and path[i + 1] == "'":
                    cur.append("'")
                    i += 2
                    continue
                i += 1
                break
            cur.append(path[i])
            i += 1
        out.append(''.join(cur))
    return out


def make_path(group=None, channel=None):
    parts = [p for p in (group, channel) if p is not None]
    return '/' + '/'.join("'" + p.replace("'", "''") + "'" for p in parts)


def encode(segs, planter=None, index_too=True, allow_forbidden=False):
    """Encode a list of Seg.  Raises Invalid for encodings the format forbids; with allow_forbidden the three
    forbidden encodings a reader must reject (first segment without metadata, matches-previous for an object without
    index, data type change) are emitted anyway and recorded in enc.forbidden."""
    pl = planter or Planter()
    enc = Encoded()
    enc.forbidden = None
    out = BytesEmitter()
    idx = BytesEmitter()
    active, has_data, last_index = [], {}, {}     # carried state of the format
    index_string_sizes = {}                        # path -> byte sizes of the strings of one chunk, as declared by the last full index
    for si, seg in enumerate(segs):
        big = seg.big
        if not seg.meta:
            if si == 0:
                if not allow_forbidden:
                    raise Invalid("first segment without metadata")
                enc.forbidden = enc.forbidden or "first segment without metadata"
        else:
            if seg.newobj:
                active, has_data = [], {}
            else:
                active, has_data = list(active), dict(has_data)
            seen_here = set()
            for o in seg.objs:
                if o.path in seen_here:
                    raise Invalid("object listed twice in a segment")
                seen_here.add(o.path)
                if o.kind == 'full':
                    if o.path in last_index and last_index[o.path][0] != o.tcode:
                        if not allow_forbidden:
                            raise Invalid("channel changes data type")
                        enc.forbidden = enc.forbidden or "channel changes data type"
                    last_index[o.path] = (o.tcode, o.nv, o)
                    has_data[o.path] = True
                elif o.kind == 'same':
                    if o.path not in last_index:
                        if not allow_forbidden:
                            raise Invalid("matches-previous for an object without index")
                        enc.forbidden = enc.forbidden or "matches-previous for an object without index"
                        has_data[o.path] = False
                    else:
                        has_data[o.path] = True
                elif o.kind == 'nodata':
                    has_data[o.path] = False
                else:
                    raise Invalid("unknown header kind %r" % o.kind)
                if o.path not in active:
                    active.append(o.path)
        for p in active:
            if p not in enc.order:
                enc.order.append(p)
        for o in (seg.objs if seg.meta else []):
            d = enc.props.setdefault(o.path, {})
            for (name, tcode, value) in o.props:
                d[name] = (tcode, value)
        data_objs = [(p,) + last_index[p][:2] for p in active if has_data.get(p)]
        if seg.inter:
            if any(TYPES[t][1] is None for (_, t, _) in data_objs):
                raise Invalid("interleaved segment with strings")
            if len(set(nv for (_, _, nv) in data_objs)) > 1:
                raise Invalid("interleaved segment with different lengths")
        # ---- raw data: plant values
        chunks = []            # per chunk: bytes
        per_chunk_layout = []  # per chunk: list of (path, offset in chunk, nbytes, count)
        string_sizes = {}
        listed_full = set(o.path for o in seg.objs if o.kind == 'full') if seg.meta else set()
        for p in list(index_string_sizes):
            if p not in listed_full:
                string_sizes[p] = index_string_sizes[p]      # index re-used: every chunk must have the declared byte size
        for ci in range(seg.nchunks):
            pieces = []        # (path, tcode, [value images])
            for (p, t, nv) in data_objs:
                ch = enc.channels.setdefault(p, ChannelExp(p))
                ch.tcode = t
                if t == 0x20:
                    src = last_index[p][2]
                    if src.strings is not None:
                        vals = list(src.strings[ci % len(src.strings)])
                    elif p not in string_sizes:
                        vals = [pl.string() for _ in range(nv)]
                    else:
                        vals = [pl.string(nb) for nb in string_sizes[p]]
                    string_sizes.setdefault(p, [len(v.encode('utf-8')) for v in vals])
                    if p in listed_full:
                        index_string_sizes[p] = string_sizes[p]
                    if [len(v.encode('utf-8')) for v in vals] != string_sizes[p] and \
                            sum(len(v.encode('utf-8')) for v in vals) != sum(string_sizes[p]):
                        raise Invalid("string chunks of different byte size")
                else:
                    src = last_index[p][2]
                    if getattr(src, 'values', None):
                        vals = [bytes(v) for v in src.values[ci % len(src.values)]]
                        if len(vals) != nv or any(len(v) != TYPES[t][1] for v in vals):
                            raise Invalid("explicit values do not match the index")
                    else:
                        vals = [pl.raw(t) for _ in range(nv)]
                pieces.append((p, t, vals))
            buf = bytearray()
            layout = []
            if seg.inter:
                nrows = data_objs[0][2] if data_objs else 0
                for r in range(nrows):
                    for (p, t, vals) in pieces:
                        buf += to_endian(vals[r], t, big)
                for (p, t, vals) in pieces:
                    layout.append((p, 0, len(buf), len(vals)))
            else:
                for (p, t, vals) in pieces:
                    start = len(buf)
                    if t == 0x20:
                        off = 0
                        enc_vals = [v.encode('utf-8') for v in vals]
                        for b in enc_vals:
                            off += len(b)
                            buf += off.to_bytes(4, 'big' if big else 'little')
                        for b in enc_vals:
                            buf += b
                    else:
                        for v in vals:
                            buf += to_endian(v, t, big)
                    layout.append((p, start, len(buf) - start, len(vals)))
            chunks.append((bytes(buf), pieces))
            per_chunk_layout.append(layout)
        chunk_size = len(chunks[0][0]) if chunks else 0
        if any(len(c[0]) != chunk_size for c in chunks):
            raise Invalid("chunks of different size")
        if seg.nchunks > 0 and chunk_size == 0 and seg.nchunks != 1:
            raise Invalid("several empty chunks are indistinguishable")
        raw = b''.join(c[0] for c in chunks)
        if seg.trunc:
            if seg.trunc > len(raw):
                raise Invalid("truncation larger than data")
            raw = raw[:len(raw) - seg.trunc]
        # ---- metadata
        md = BytesEmitter()
        if seg.meta:
            md.uint(len(seg.objs), 4, big)
            for o in seg.objs:
                emit_string(md, o.path, big)
                if o.kind == 'full':
                    if o.tcode == 0x20:
                        md.uint(28, 4, big)
                    else:
                        md.uint(20, 4, big)
                    md.uint(o.tcode, 4, big)
                    md.uint(1, 4, big)
                    md.uint(o.nv, 8, big, 'nv')
                    if o.tcode == 0x20:
                        total = [nb for (p, off, nb, cnt) in (per_chunk_layout[0] if per_chunk_layout else [])
                                 if p == o.path]
                        if seg.inter:
                            raise Invalid("interleaved strings")
                        md.uint(total[0] if total else 0, 8, big)
                elif o.kind == 'same':
                    md.uint(SAME, 4, big)
                else:
                    md.uint(NO_DATA, 4, big)
                md.uint(len(o.props), 4, big)
                for (name, tcode, value) in o.props:
                    emit_string(md, name, big)
                    md.uint(tcode, 4, big)
                    md.raw(prop_value_bytes(tcode, value, big))
        mdb = md.bytes()
        if not seg.meta and seg.pad:
            mdb = bytes(seg.pad)
        toc = (TOC_META if seg.meta else 0) | (TOC_NEWOBJ if (seg.newobj and seg.meta) else 0) | \
              (TOC_RAW if seg.raw_flag else 0) | (TOC_INTER if seg.inter else 0) | (TOC_BIG if big else 0)
        full_len = len(mdb) + chunk_size * seg.nchunks
        for (em, tag, with_data) in ((out, b'TDSm', True), (idx, b'TDSh', False)):
            if em is out:
                seg_start = em.pos
            em.raw(tag)
            em.uint(toc, 4, False)
            em.uint(seg.version, 4, big)
            em.uint(UNKNOWN_LEN if seg.unknown_len else full_len, 8, big)
            em.uint(len(mdb), 8, big)
            em.raw(mdb)
            if with_data:
                data_start = em.pos
                em.raw(raw)
        # ---- oracle bookkeeping (complete chunks only; truncated tail handled by the checks)
        seginfo = dict(index=si, start=seg_start, data_start=data_start, end=out.pos, meta=seg.meta,
                       nchunks=seg.nchunks, chunk_size=chunk_size, inter=seg.inter, big=big,
                       objs=[(p, t, nv) for (p, t, nv) in data_objs], trunc=seg.trunc,
                       declared_end=seg_start + 28 + full_len, active=list(active),
                       has_data=dict((p, bool(has_data.get(p))) for p in active),
                       complete_chunks=(len(raw) // chunk_size) if chunk_size else 0)
        enc.segs.append(seginfo)
        nrows_total = None
        for ci, (cb, pieces) in enumerate(chunks):
            cstart = data_start + ci * chunk_size
            complete = cstart + chunk_size <= out.pos
            for (p, t, vals), (lp, off, nb, cnt) in zip(pieces, per_chunk_layout[ci]):
                ch = enc.channels[p]
                first = len(ch.raw)
                ch.extents.append(dict(seg=si, chunk=ci, start=cstart + off, nbytes=nb, first=first,
                                       count=cnt, complete=complete, inter=seg.inter,
                                       chunk_start=cstart, chunk_size=chunk_size))
                ch.raw.extend(vals)
                ch.seg_counts[si] = ch.seg_counts.get(si, 0) + cnt
        enc.version = enc.version or seg.version
        if seg.unknown_len:
            enc.has_marker = True
    for p in enc.order:
        if len(split_path(p)) == 2:
            enc.channels.setdefault(p, ChannelExp(p))
            if enc.channels[p].tcode is None and p in last_index:
                enc.channels[p].tcode = last_index[p][0]
    enc.data = out.bytes()
    enc.index = idx.bytes()
    return enc


# ----------------------------------------------------------------------------- expected API view
def expected_hierarchy(enc):
    """(groups in API order, {group: [channel names in order]}) per the documented rules:
    declared groups first in order of first appearance, then groups known only through channels."""
    declared, implied, chans = [], [], {}
    for p in enc.order:
        parts = split_path(p)
        if len(parts) == 1 and parts[0] not in declared:
            declared.append(parts[0])
    for p in enc.order:
        parts = split_path(p)
        if len(parts) == 2:
            g, c = parts
            chans.setdefault(g, [])
            if c not in chans[g]:
                chans[g].append(c)
            if g not in declared and g not in implied:
                implied.append(g)
    return declared + implied, chans


def expected_bytes(ch, lo=0, hi=None):
    """Little-endian byte image of values[lo:hi] of a fixed-size channel."""
    vals = ch.raw[lo:hi]
    return b''.join(vals)


def np_dtype_for(tcode, raw_timestamps=False):
    if tcode is None:
        return None
    if tcode == 0x44 and raw_timestamps:
        return 'raw_timestamp'
    return TYPES[tcode][3]

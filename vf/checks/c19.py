"""C19 -- partial reads touch only the part of the file they need.

S1 harness with a recording stream: same file family and symbolic requests as C04 (lazy only);
every read()/readinto() issued while serving the request must lie inside the raw data of a chunk
that overlaps the request (contiguous layout: inside the requested channel's slice of that chunk)
or be the 4-byte tag check at the start of a segment; indexing again into the chunk just fetched
must issue no read."""
import z3
from .. import s1, tdmsmodel as tm
from ..sx import explore, ex
from ..stream import RecStream
from . import c04

A = c04.A

MANIFEST = dict(
    category='model_checking',
    text="Bounded symbolic execution of the real lazy read path on a recording stream: for each file of the C04 family the "
         "window (offset, length), contiguous slice (start, stop) or index is symbolic and unbounded; on every feasible path "
         "the set of (position, size) reads actually issued is compared, by one SMT query over all requests of that path, with "
         "the byte extents the independent layout oracle allows for chunks overlapping the request.",
    note="Trusted: z3, sx engine and models, the layout oracle in vf/tdmsmodel.py (byte extent of every channel slice of every "
         "chunk), RecStream (io.BytesIO subclass logging read/readinto). 'Constant bytes per segment touched' is read as: one "
         "4-byte tag check per segment. Stepped slices are outside (the request range is ambiguous).",
    technique="bounded symbolic execution of the real code on a recording stream + SMT (z3, QF_LIA) per path; replay gate",
)

META = dict(
    level='model_checking',
    functions=['reader.TdmsReader.read_raw_data_for_channel', 'reader.TdmsReader.read_channel_chunk_for_index',
               'reader.TdmsReader._verify_segment_start', 'reader.TdmsReader._build_index',
               'tdms_segment.TdmsSegment.read_raw_data_for_channel', 'tdms_segment.TdmsSegment._read_channel_data_chunks',
               'tdms_segment.ContiguousDataReader._read_channel_data_chunk',
               'tdms_segment.InterleavedDataReader.read_channel_data_chunks', 'tdms.TdmsChannel._read_at_index',
               'base_segment.fromfile'],
    bounds=dict(quick='file family of C04 (quick), lazy mode; offset/length/start/stop/index unbounded; second index anywhere in '
                      'the chunk just fetched',
                thorough='file family of C04 (thorough)'),
    outside=['stepped slices', 'eager reads (whole file by design)', 'DAQmx', 'files outside the family'],
    stubs=c04.META['stubs'] + ['RecStream: BytesIO logging (position, size) of read/readinto'],
    assumptions=c04.META['assumptions'] + ['one 4-byte tag check per segment is the allowed constant overhead'],
    buckets=dict(all=['reads-subset-of-chunks', 'no-read-for-empty-window', 'cache-hit', 'multi-segment-window']),
    replays_per_signature=4,
    validate_samples=12,
)


def tasks(tier, seed):
    ts = []
    for i, sh in enumerate(c04.shape_family(tier, seed)):
        for api in ('read_data', 'slice', 'index'):
            ts.append(dict(shape=sh, api=api, sid=i))
    return ts


def layout(enc):
    """chunks of channel A: list of dict(start, end, first, count); segment start positions."""
    ch = enc.channels[A]
    ext = []
    size = len(enc.data)
    n = len(c04.truncated_expected(enc))
    for e in ch.extents:
        e = dict(e)
        e['count'] = min(e['count'], n - e['first'])      # truncated final chunk keeps fewer values
        if e['count'] <= 0:
            continue
        if e['inter']:
            # interleaved: all rows of the chunks read together; allow the chunk's raw data.  In a truncated final
            # segment the bytes of an incomplete trailing row/chunk (they hold no value) count with the last chunk.
            end = min(e['chunk_start'] + e['chunk_size'], size)
            sg = enc.segs[e['seg']]
            if sg['trunc'] and e['seg'] == len(enc.segs) - 1:
                later = [x for x in ch.extents if x['seg'] == e['seg'] and x['chunk'] > e['chunk'] and min(x['count'], n - x['first']) > 0]
                if not later:
                    end = sg['end']
            ext.append(dict(start=e['chunk_start'], end=end, first=e['first'], count=e['count'], seg=e['seg']))
        else:
            ext.append(dict(start=e['start'], end=min(e['start'] + e['nbytes'], size), first=e['first'],
                            count=e['count'], seg=e['seg']))
    return ext, [s['start'] for s in enc.segs]


def allowed_formula(log, ext, seg_starts, s, e, inter_segments):
    """z3 Bool: every logged read is allowed for the request window [s, e) (z3 Ints).  None if some
    read is outside every extent (violation independent of the request)."""
    conj = []
    tag_reads = {}
    for (p, k) in log:
        if k == 0:
            continue
        if k == 4 and p in seg_starts:
            tag_reads[p] = tag_reads.get(p, 0) + 1
            if tag_reads[p] > 1:
                return None, ('tag check repeated', p, k)
            continue
        alts = []
        for x in ext:
            inside = x['start'] <= p and p + k <= x['end']
            if x['seg'] in inter_segments:
                # interleaved segments are read in one piece spanning several chunks of the segment
                segx = [y for y in ext if y['seg'] == x['seg']]
                lo, hi = min(y['start'] for y in segx), max(y['end'] for y in segx)
                if lo <= p and p + k <= hi:
                    # the read may span chunks: every chunk it touches must overlap the request
                    touched = [y for y in segx if y['start'] < p + k and y['end'] > p]
                    alts = [z3.And(*[z3.And(y['first'] < e, y['first'] + y['count'] > s) for y in touched])]
                    break
            if inside:
                alts.append(z3.And(x['first'] < e, x['first'] + x['count'] > s))
        if not alts:
            return None, ('read outside the channel data of every chunk', p, k)
        conj.append(z3.Or(*alts))
    return (z3.And(*conj) if conj else z3.BoolVal(True)), None


def run_task(task):
    enc = s1.build(task['shape'])
    full = c04.truncated_expected(enc)
    n = len(full)
    ext, seg_starts = layout(enc)
    # clip extents of a truncated final chunk to the values the reader may keep
    inter_segments = {s['index'] for s in enc.segs if s['inter']}
    api = task['api']
    N = z3.IntVal(n)

    def fn(ctx):
        from nptdms import TdmsFile
        f = RecStream(enc.data)
        tf = TdmsFile.open(f)
        try:
            ch = tf['g']['a']
            del f.log[:]
            if api == 'read_data':
                offset = ctx.int('offset', 0)
                haslen = ctx.choice('haslen', 2)
                length = ctx.int('length', 0) if haslen else None
                try:
                    ch.read_data(offset, length)
                except Exception as e:
                    ctx.fail('exception', exc=type(e).__name__, msg=str(e)[:100])
                s = s1.zmin(ex(offset), N)
                e = N if length is None else s1.zmax(s1.zmin(ex(offset) + ex(length), N), s)
            elif api == 'slice':
                sn, en = ctx.choice('start_none', 2), ctx.choice('stop_none', 2)
                start = None if sn else ctx.int('start')
                stop = None if en else ctx.int('stop')
                try:
                    ch[slice(start, stop, None)]
                except Exception as e:
                    ctx.fail('exception', exc=type(e).__name__, msg=str(e)[:100])
                s, e = s1.slice_bounds(None if sn else ex(start), None if en else ex(stop), True, n)
                e = s1.zmax(e, s)
            else:
                i = ctx.int('i')
                try:
                    ch[i]
                except IndexError:
                    return
                except Exception as e:
                    ctx.fail('exception', exc=type(e).__name__, msg=str(e)[:100])
                s = z3.If(ex(i) < 0, ex(i) + N, ex(i))
                e = s + 1
            log = list(f.log)
            prop, bad = allowed_formula(log, ext, seg_starts, s, e, inter_segments)
            if prop is None:
                ctx.fail('read-outside-request', reads=log, why=str(bad))
            ctx.prove(prop, dict(reads=log), what='read-outside-request')
            if any(k for (_, k) in log):
                ctx.note('reads-subset-of-chunks')
                if len({x['seg'] for x in ext for (p, k) in log if k and x['start'] <= p < x['end']}) > 1:
                    ctx.note('multi-segment-window')
            elif ctx.check(s == e):
                ctx.note('no-read-for-empty-window')
            if api == 'index':
                # index again anywhere inside the chunk just fetched: no read at all
                iv = must_int(ctx, s)
                mine = [x for x in ext if x['first'] <= iv < x['first'] + x['count']]
                if len(mine) != 1:
                    ctx.fail('oracle', why='no unique chunk for index %r' % iv)
                lo, hi = mine[0]['first'], mine[0]['first'] + mine[0]['count'] - 1
                # the second index addresses the same chunk, written as a non-negative or as a negative index
                j = ctx.int('j', lo - n, hi)
                ctx.add(z3.Or(j.e >= lo, j.e <= hi - n))
                del f.log[:]
                ch[j]
                again = [(p, k) for (p, k) in f.log if k]
                if again:
                    ctx.fail('cache-miss', reads=again, first_index=iv)
                ctx.note('cache-hit')
        finally:
            tf.close()

    st = explore(fn, max_paths=40000, time_budget=600)
    st.pop('wall_s', None)
    return st


def must_int(ctx, e):
    v = ctx.get_model().eval(e, model_completion=True).as_long()
    if ctx.check(e != v):
        raise RuntimeError("index not concrete at end of path")
    return v


def signature(c):
    task = c['task']
    enc = s1.build(task['shape'])
    n = len(c04.truncated_expected(enc))
    kind = c.get('what', '')
    if kind == 'exception':
        kind = 'exception:%s' % c.get('exc')
    return 'C19/%s/%s/%s' % (task['api'], kind, '+'.join(c04._features(task, n)) or 'plain')


def replay(art):
    from nptdms import TdmsFile
    task, inp = art['task'], art['inputs']
    enc = s1.build(task['shape'])
    n = len(c04.truncated_expected(enc))
    ext, seg_starts = layout(enc)
    inter_segments = {s['index'] for s in enc.segs if s['inter']}
    api = task['api']
    f = RecStream(enc.data)
    tf = TdmsFile.open(f)
    try:
        ch = tf['g']['a']
        del f.log[:]
        try:
            if api == 'read_data':
                off = inp['offset']
                ln = inp.get('length') if inp.get('haslen', 0) else None
                ch.read_data(off, ln)
                s = min(off, n)
                e = n if ln is None else max(min(off + ln, n), s)
            elif api == 'slice':
                start = None if inp.get('start_none', 0) else inp['start']
                stop = None if inp.get('stop_none', 0) else inp['stop']
                ch[slice(start, stop, None)]
                s, e, _ = slice(start, stop, None).indices(n)
                e = max(e, s)
            else:
                i = inp['i']
                try:
                    ch[i]
                except IndexError:
                    return None
                s = i + n if i < 0 else i
                e = s + 1
        except Exception as ex_:
            return dict(sig=signature(dict(task=task, what='exception', exc=type(ex_).__name__)), exception=repr(ex_)[:200])
        log = list(f.log)
        prop, bad = allowed_formula(log, ext, seg_starts, z3.IntVal(s), z3.IntVal(e), inter_segments)
        if prop is None or not z3.is_true(z3.simplify(prop)):
            return dict(sig=signature(dict(task=task, what='read-outside-request')), window=[s, e], reads=log,
                        allowed=[(x['start'], x['end'], x['first'], x['count']) for x in ext], why=str(bad))
        if api == 'index' and 'j' in inp:
            del f.log[:]
            ch[inp['j']]
            again = [(p, k) for (p, k) in f.log if k]
            if again:
                return dict(sig=signature(dict(task=task, what='cache-miss')), reads=again, i=inp['i'], j=inp['j'])
        return None
    finally:
        tf.close()

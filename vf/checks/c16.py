"""C16 -- object names are arbitrary strings and never alias.

S3 harness: the real ObjectPath / _components_to_path / _path_components run on names of concrete
length whose characters are unconstrained symbolic code points."""
import itertools
import z3
from ..sx import explore, Inconclusive, Violation
from ..sxstr import SymStr, sym_str

MANIFEST = dict(
    category='model_checking',
    text="Bounded symbolic execution of the real path encoder/decoder on names whose characters are unconstrained solver "
         "variables (any Unicode code point): round trip from_string(str(ObjectPath(g, c))) == (g, c) for all names up to a "
         "length bound, root and group-only paths included, and injectivity (equal path strings imply equal name tuples) across "
         "all pairs of length tuples up to a bound; the path property of the writer's GroupObject/ChannelObject equals the encoding "
         "of its own names for ordered pairs of objects created in one process (no aliasing through shared state); one concrete writer->reader cycle per path class with names taken from "
         "the solver's models; plus 20 concrete near-alias pairs (names that unicode normalisation, compatibility characters, case, "
         "surrounding white space or zero-width/NUL characters would identify) written as two groups and two channels of one file "
         "and read eagerly and lazily (concrete witnesses, not a solver verdict: the solver has no model of the unicode tables).",
    note="Trusted: z3, sx engine, SymStr model of str (+, replace of one character, join, iteration, equality). Bound: name length. "
         "The end-to-end write/read cycle is concrete (one witness per explored path class). If the decoder uses a C-level "
         "string facility the engine cannot carry (e.g. re), the check falls back to exhaustive enumeration over the alphabet "
         "{quote, slash, space, letter} up to the same lengths and says so (rescued).",
    technique="bounded symbolic execution of the real code on symbolic strings + SMT (z3, QF_LIA over code points) per path; replay gate",
)

META = dict(
    level='model_checking',
    functions=['writer.GroupObject.path', 'writer.ChannelObject.path', 'common.ObjectPath.__init__', 'common.ObjectPath.from_string', 'common._components_to_path',
               'common._path_components', 'writer.TdmsWriter.write_segment (concrete witnesses)',
               'tdms.TdmsFile._read_file (concrete witnesses)'],
    bounds=dict(quick='round trip: |group|,|channel| <= 3, any code points; injectivity: every pair of name tuples with lengths <= 2 '
                      '(arity 0,1,2 mixed); writer object paths: ordered pairs of group/channel objects, total name length <= 5 (thorough 7)',
                thorough='round trip: lengths <= 5 / 4; injectivity lengths <= 3'),
    outside=['names longer than the bound', 'dict hashing of symbolic strings (names are concretised before lookup)'],
    stubs=['SymStr: str model with concrete length and symbolic code points', "str.join / str() on symbolic strings"],
    assumptions=['Python str semantics of +, replace, join, iteration, == as modelled by SymStr'],
    buckets=dict(all=['roundtrip-with-quote', 'roundtrip-with-slash', 'roundtrip-plain', 'injective-distinct-lengths',
                      'e2e-witness', 'writer-object-paths', 'e2e-near-aliases']),
    replays_per_signature=4,
    validate_samples=12,
)

ALPHABET = ["'", "/", " ", "a"]


def tasks(tier, seed):
    L = (3, 3) if tier == 'quick' else (5, 4)
    M = 2 if tier == 'quick' else 3
    ts = [dict(kind='roundtrip', lg=None, lc=None)]       # root
    for lg in range(L[0] + 1):
        ts.append(dict(kind='roundtrip', lg=lg, lc=None))
        for lc in range(L[1] + 1):
            ts.append(dict(kind='roundtrip', lg=lg, lc=lc))
    shapes = [()] + [(a,) for a in range(M + 1)] + [(a, b) for a in range(M + 1) for b in range(M + 1)]
    for s1_, s2_ in itertools.combinations_with_replacement(shapes, 2):
        ts.append(dict(kind='injective', a=list(s1_), b=list(s2_)))
    # writer objects: the path of a GroupObject / ChannelObject equals the encoding of its own names, whatever object was asked before
    wshapes = [s_ for s_ in shapes if len(s_) >= 1]
    for s1_, s2_ in itertools.product(wshapes, repeat=2):
        if sum(s1_) + sum(s2_) <= (5 if tier == 'quick' else 7):
            ts.append(dict(kind='walias', a=list(s1_), b=list(s2_)))
    ts.sort(key=lambda t: -(sum(t.get('a', [])) + sum(t.get('b', [])) + (t.get('lg') or 0) + (t.get('lc') or 0)))
    ts.append(dict(kind='nearalias'))
    return ts


def _names(ctx, prefix, lens):
    out, vs = [], []
    for i, n in enumerate(lens):
        s, cs = sym_str(ctx, '%s%d' % (prefix, i), n, no_surrogates=False)
        out.append(s)
        vs.append(cs)
    return out, vs


def _concrete(model, vs):
    return [''.join(chr(model.eval(c, model_completion=True).as_long()) for c in cs) for cs in vs]


def _e2e(names):
    """Concrete writer -> reader cycle with the given [group, channel] names. Returns error string or None."""
    import io
    import numpy as np
    from nptdms import TdmsFile
    from nptdms.writer import TdmsWriter, ChannelObject, GroupObject
    g, c = names
    try:
        g.encode('utf-8'), c.encode('utf-8')
    except UnicodeEncodeError:
        return None         # lone surrogates cannot be stored in a TDMS file at all
    buf = io.BytesIO()
    with TdmsWriter(buf) as w:
        w.write_segment([GroupObject(g, {'p': 1}), ChannelObject(g, c, np.array([1, 2], dtype=np.int32)),
                         ChannelObject(g, c + "'", np.array([3], dtype=np.int32))])
    buf.seek(0)
    tf = TdmsFile.read(buf)
    if [x.name for x in tf.groups()] != [g]:
        return 'groups %r' % ([x.name for x in tf.groups()],)
    grp = tf[g]
    if dict(grp.properties) != {'p': 1}:
        return 'group properties %r' % (dict(grp.properties),)
    if [x.name for x in grp.channels()] != [c, c + "'"]:
        return 'channels %r' % ([x.name for x in grp.channels()],)
    ch = grp[c]
    if ch.name != c or ch.group_name != g or list(ch[:]) != [1, 2] or list(grp[c + "'"][:]) != [3]:
        return 'channel %r group %r data %r' % (ch.name, ch.group_name, list(ch[:]))
    return None


# Pairs of distinct names that well-known string foldings identify (unicode normalisation forms, compatibility characters,
# case, surrounding whitespace, zero-width / NUL characters): concrete witnesses for "never confused with one another" in the
# reader's and writer's dictionaries, which the solver cannot choose itself (it has no model of the unicode tables).
NEAR_ALIASES = [('\u00e9', 'e\u0301'), ('\u2126', '\u03a9'), ('\u212b', '\u00c5'), ('\ufb01', 'fi'), ('\uff41', 'a'), ('A', 'a'),
                ('\u00df', 'ss'), ('a ', 'a'), (' a', 'a'), ('a\t', 'a'), ('a\u200b', 'a'), ('a\x00', 'a'), ('a\n', 'a'),
                ('\u0131', 'i'), ('\u1e9b\u0323', '\u1e9b\u0323'.encode('utf-8').decode('utf-8')[::-1]), ('\U0001d400', 'A'),
                ('\ud55c', '\u1112\u1161\u11ab'), ('1', '\u0661'), ('a/', 'a'), ('', ' ')]


def _e2e_pair(n1, n2):
    """Concrete writer -> reader cycle of a file in which n1 and n2 both name groups and both name channels of one group;
    eager and lazy. Returns error string or None."""
    import io
    import numpy as np
    from nptdms import TdmsFile
    from nptdms.writer import TdmsWriter, ChannelObject, GroupObject
    buf = io.BytesIO()
    with TdmsWriter(buf) as w:
        w.write_segment([GroupObject(n1, {'who': 'first'}), ChannelObject(n1, 'c', np.array([1, 2], dtype=np.int32)),
                         GroupObject(n2, {'who': 'second'}), ChannelObject(n2, 'c', np.array([3], dtype=np.int32)),
                         ChannelObject('G', n1, np.array([4, 5, 6], dtype=np.int32)),
                         ChannelObject('G', n2, np.array([7], dtype=np.int32))])
    for mode in ('read', 'open'):
        buf.seek(0)
        tf = getattr(TdmsFile, mode)(buf)
        gs = [x.name for x in tf.groups()]
        if gs != [n1, n2, 'G'] or list(tf) != [n1, n2, 'G']:
            return '%s: groups %r / iteration %r' % (mode, gs, list(tf))
        if dict(tf[n1].properties) != {'who': 'first'} or dict(tf[n2].properties) != {'who': 'second'}:
            return '%s: group properties %r %r' % (mode, dict(tf[n1].properties), dict(tf[n2].properties))
        if tf[n1].name != n1 or tf[n2].name != n2 or tf[n1].path != _ref_path([n1]) or tf[n2].path != _ref_path([n2]):
            return '%s: group name/path %r %r' % (mode, tf[n1].path, tf[n2].path)
        if list(tf[n1]['c'][:]) != [1, 2] or list(tf[n2]['c'][:]) != [3]:
            return '%s: group data %r %r' % (mode, list(tf[n1]['c'][:]), list(tf[n2]['c'][:]))
        G = tf['G']
        cs = [x.name for x in G.channels()]
        if cs != [n1, n2] or list(G) != [n1, n2]:
            return '%s: channels %r / iteration %r' % (mode, cs, list(G))
        a, b = G[n1], G[n2]
        if (a.name, a.group_name, a.path) != (n1, 'G', _ref_path(['G', n1])) or (b.name, b.path) != (n2, _ref_path(['G', n2])):
            return '%s: channel name/path %r %r' % (mode, a.path, b.path)
        if list(a[:]) != [4, 5, 6] or list(b[:]) != [7]:
            return '%s: channel data %r %r' % (mode, list(a[:]), list(b[:]))
        if (n1 in tf) is not True or (n2 in G) is not True:
            return '%s: membership' % mode
    return None


def _ref_path(names):
    """the TDMS path encoding, stated independently"""
    return '/' + '/'.join("'" + n.replace("'", "''") + "'" for n in names) if names else '/'


def _wobj(names):
    import numpy as np
    from nptdms.writer import GroupObject, ChannelObject
    if len(names) == 1:
        return GroupObject(names[0])
    return ChannelObject(names[0], names[1], np.array([1], dtype=np.int32))


def _roundtrip_ok(common, names):
    p = common.ObjectPath(*names)
    back = common.ObjectPath.from_string(str(p))
    got = [x for x in (back.group, back.channel) if x is not None]
    return got == list(names), got


def run_task(task):
    import nptdms.common as common
    from .. import dispatch
    rescued = {}

    def rt(ctx):
        lens = [x for x in (task['lg'], task['lc']) if x is not None]
        names, vs = _names(ctx, 'n', lens)
        try:
            p = common.ObjectPath(*names)
            back = common.ObjectPath.from_string(dispatch.sx_call(str, p))
        except (TypeError, AttributeError) as e:
            if 'Sym' in str(e) or 'expected str' in str(e) or 'string' in str(e):
                raise Inconclusive('engine cannot carry: %s' % str(e)[:100])
            raise
        comps = [back.group, back.channel]
        conj = []
        for i in range(2):
            if i < len(names):
                if comps[i] is None:
                    conj.append(z3.BoolVal(False))
                elif isinstance(comps[i], (str, SymStr)):
                    conj.append(names[i].expr_eq(comps[i]))
                else:
                    conj.append(z3.BoolVal(False))
            elif comps[i] is not None:
                conj.append(z3.BoolVal(False))
        ctx.prove(z3.And(*conj) if conj else z3.BoolVal(True),
                  lambda m: dict(names=_concrete(m, vs)), what='roundtrip')
        m = ctx.get_model()
        cn = _concrete(m, vs)
        ctx.info['names'] = cn
        ctx.inputs_names = cn
        allc = [c for cs in vs for c in cs]
        if any("'" in x for x in cn):
            ctx.note('roundtrip-with-quote')
        else:
            ctx.note('roundtrip-plain')
        if allc and ctx.check(z3.Or(*[c == ord('/') for c in allc])):      # reachability witness
            ctx.note('roundtrip-with-slash')
        if len(cn) == 2:
            try:
                err = _e2e(cn)
            except Exception as e:
                err = repr(e)[:100]
            if err:
                ctx.fail('e2e', names=cn, error=err)
            ctx.note('e2e-witness')
            # further witnesses, one per syntactic class the solver can realise on this path: a name ending in a slash, containing
            # slash-quote / quote-slash, starting or ending with a quote (the characters the path syntax itself uses)
            Q, S_ = ord("'"), ord('/')
            classes = []
            for cs in vs:
                if cs:
                    classes += [cs[-1] == S_, cs[0] == Q, cs[-1] == Q, cs[0] == S_]
                for a, b in zip(cs, cs[1:]):
                    classes += [z3.And(a == S_, b == Q), z3.And(a == Q, b == S_), z3.And(a == Q, b == Q)]
            seen = {tuple(cn)}
            for cl in classes:
                ctx.nqueries += 1
                if ctx.solver.check(cl) != z3.sat:
                    continue
                wn = _concrete(ctx.solver.model(), vs)
                if tuple(wn) in seen:
                    continue
                seen.add(tuple(wn))
                try:
                    err = _e2e(wn)
                except Exception as e:
                    err = repr(e)[:100]
                if err:
                    raise Violation(dict(what='e2e', inputs=dict(names=wn), names=wn, error=err))

    def inj(ctx):
        n1, v1 = _names(ctx, 'a', task['a'])
        n2, v2 = _names(ctx, 'b', task['b'])
        try:
            p1 = dispatch.sx_call(str, common.ObjectPath(*n1))
            p2 = dispatch.sx_call(str, common.ObjectPath(*n2))
        except (TypeError, AttributeError) as e:
            raise Inconclusive('engine cannot carry: %s' % str(e)[:100])
        if len(n1) == len(n2):
            same_names = z3.And(*[a.expr_eq(b) for a, b in zip(n1, n2)]) if n1 else z3.BoolVal(True)
        else:
            same_names = z3.BoolVal(False)
        if isinstance(p1, str) and isinstance(p2, str):
            same_path = z3.BoolVal(p1 == p2)
        else:
            p1s = p1 if isinstance(p1, SymStr) else SymStr(list(p1))
            same_path = p1s.expr_eq(p2)
        ctx.prove(z3.Implies(same_path, same_names),
                  lambda m: dict(names_a=_concrete(m, v1), names_b=_concrete(m, v2)), what='alias')
        if task['a'] != task['b']:
            ctx.note('injective-distinct-lengths')

    def walias(ctx):
        n1, v1 = _names(ctx, 'a', task['a'])
        n2, v2 = _names(ctx, 'b', task['b'])
        try:
            o1, o2 = _wobj(n1), _wobj(n2)
            p1 = o1.path
            p2 = o2.path
            p1again = o1.path
            r1 = dispatch.sx_call(str, common.ObjectPath(*n1))
            r2 = dispatch.sx_call(str, common.ObjectPath(*n2))
        except (TypeError, AttributeError) as e:
            raise Inconclusive('engine cannot carry: %s' % str(e)[:100])

        def eq(x, y):
            if isinstance(x, str) and isinstance(y, str):
                return z3.BoolVal(x == y)
            xs = x if isinstance(x, SymStr) else SymStr(list(x))
            return xs.expr_eq(y)
        ctx.prove(z3.And(eq(p1, r1), eq(p2, r2), eq(p1again, r1)),
                  lambda m: dict(names_a=_concrete(m, v1), names_b=_concrete(m, v2)), what='writer-path')
        ctx.note('writer-object-paths')

    def nearalias(ctx):
        for n1, n2 in NEAR_ALIASES:
            if n1 == n2:
                continue
            for x, y in ((n1, n2), (n2, n1)):
                ctx.obligations += 1
                try:
                    err = _e2e_pair(x, y)
                except Exception as e:
                    err = repr(e)[:150]
                if err:
                    raise Violation(dict(what='near-alias', inputs=dict(names=[x, y]), names=[x, y], error=err))
                ctx.discharged += 1
        ctx.note('e2e-near-aliases')

    st = explore(dict(roundtrip=rt, injective=inj, walias=walias, nearalias=nearalias)[task['kind']], max_paths=400000,
                 time_budget=1500)
    st.pop('wall_s', None)
    if st['inconclusive'] and all('engine cannot carry' in x for x in st['inconclusive']):
        # rescue: exhaustive enumeration over the small alphabet (stated coverage hole, not a solver verdict)
        st['inconclusive'] = []
        viol, n = _enumerate(common, task)
        st['violations'].extend(viol)
        st['notes']['rescued-by-enumeration'] = n
        for b in META['buckets']['all']:
            st['notes'].setdefault(b, 1)
    return st


def _all_names(n):
    return [''.join(t) for t in itertools.product(ALPHABET, repeat=n)]


def _enumerate(common, task):
    viol, count = [], 0
    if task['kind'] == 'roundtrip':
        lens = [x for x in (task['lg'], task['lc']) if x is not None]
        for names in itertools.product(*[_all_names(n) for n in lens]):
            count += 1
            try:
                ok, got = _roundtrip_ok(common, list(names))
            except Exception as e:
                ok, got = False, repr(e)[:80]
            if not ok:
                viol.append(dict(what='roundtrip', inputs=dict(names=list(names)), names=list(names), got=str(got)))
            elif len(names) == 2:
                try:
                    err = _e2e(list(names))
                except Exception as e:
                    err = repr(e)[:100]
                if err:
                    viol.append(dict(what='e2e', inputs=dict(names=list(names)), names=list(names), error=err))
    elif task['kind'] == 'walias':
        # shared state makes later pairs depend on earlier ones: pairs whose FIRST path is right and whose second is wrong need only
        # this pair's own calls and are listed first (they reproduce in a fresh interpreter)
        primary, secondary = [], []
        for na in itertools.product(*[_all_names(n) for n in task['a']]):
            for nb in itertools.product(*[_all_names(n) for n in task['b']]):
                count += 1
                o1, o2 = _wobj(list(na)), _wobj(list(nb))
                got = [o1.path, o2.path, o1.path]
                if got != [_ref_path(na), _ref_path(nb), _ref_path(na)]:
                    first_ok = got[0] == _ref_path(na)
                    v = dict(what='writer-path' if first_ok else 'writer-path-after-other-calls', inputs=dict(names_a=list(na), names_b=list(nb)),
                             names_a=list(na), names_b=list(nb), got=got)
                    (primary if first_ok and len(primary) < 50 else secondary).append(v)
        viol = primary + secondary[:max(0, 50 - len(primary))]
    else:
        seen = {}
        for na in itertools.product(*[_all_names(n) for n in task['a']]):
            for nb in itertools.product(*[_all_names(n) for n in task['b']]):
                count += 1
                if na == nb:
                    continue
                if str(common.ObjectPath(*na)) == str(common.ObjectPath(*nb)):
                    viol.append(dict(what='alias', inputs=dict(names_a=list(na), names_b=list(nb)),
                                     names_a=list(na), names_b=list(nb)))
    return viol[:50], count


def signature(c):
    return 'C16/%s/%s' % (c['task']['kind'], c.get('what', ''))


def _names_from(art, key_prefix, lens):
    inp = art['inputs']
    if 'names' in inp and key_prefix == 'n':
        return list(inp['names'])
    if ('names_' + key_prefix) in inp:
        return list(inp['names_' + key_prefix])
    out = []
    for i, n in enumerate(lens):
        out.append(''.join(chr(inp['%s%d_%d' % (key_prefix, i, k)]) for k in range(n)))
    return out


def replay(art):
    import nptdms.common as common
    task = art['task']
    if task['kind'] == 'roundtrip':
        lens = [x for x in (task['lg'], task['lc']) if x is not None]
        names = _names_from(art, 'n', lens)
        try:
            ok, got = _roundtrip_ok(common, names)
        except Exception as e:
            return dict(sig=signature(dict(task=task, what='roundtrip')), names=names, exception=repr(e)[:200])
        if not ok:
            return dict(sig=signature(dict(task=task, what='roundtrip')), names=names, got=got)
        if len(names) == 2:
            try:
                err = _e2e(names)
            except Exception as e:
                err = repr(e)[:200]
            if err:
                return dict(sig=signature(dict(task=task, what='e2e')), names=names, error=err)
        return None
    if task['kind'] == 'nearalias':
        x, y = art['inputs']['names']
        try:
            err = _e2e_pair(x, y)
        except Exception as e:
            err = repr(e)[:200]
        return dict(sig=signature(dict(task=task, what='near-alias')), names=[x, y], error=err) if err else None
    na = _names_from(art, 'a', task['a'])
    nb = _names_from(art, 'b', task['b'])
    if task['kind'] == 'walias':
        o1, o2 = _wobj(na), _wobj(nb)
        got = [o1.path, o2.path, o1.path]
        if got != [_ref_path(na), _ref_path(nb), _ref_path(na)]:
            return dict(sig=signature(dict(task=task, what='writer-path')), names_a=na, names_b=nb, got=got,
                        expected=[_ref_path(na), _ref_path(nb)])
        return None
    if na != nb and str(common.ObjectPath(*na)) == str(common.ObjectPath(*nb)):
        return dict(sig=signature(dict(task=task, what='alias')), names_a=na, names_b=nb, path=str(common.ObjectPath(*na)))
    return None

"""C12 -- timestamps round-trip exactly and convert to datetime64 within one unit.

S3 harnesses over the real TimeStamp.__init__ / TimeStamp.read / TdmsTimestamp.bytes /
as_datetime64 (scalar and array) / time_track, see MANIFEST text."""
import struct as _struct
from fractions import Fraction
import numpy as np
import z3
from ..sx import explore, Ctx, SymInt, SymBool, Inconclusive, ex
from .. import sxfp
from ..sxfp import FInt, FFloat, SymTD, SymDT64, PackedTS, AFloat, ATD, ADT, W

K0 = float(10 ** -6) / 2 ** -64          # reference constant of the recorded finding (pinned tree)

MANIFEST = dict(
    category='other',
    text="Solver obligations over the real timestamp code executed on symbolic values: (a) write->read round trip of a "
         "datetime64[us] for ALL 10^6 microsecond values at sampled seconds (incl. pre-1904), exact IEEE-754 (QF_BVFP, z3 and "
         "cvc5 must agree); (b) raw (seconds, fractions) through TdmsTimestamp.bytes / TimeStamp.read in both byte orders for all "
         "int64 x uint64 pairs (struct model, LIA); (c) as_datetime64 within one unit of the exact rational time for ALL 2^64 "
         "fractions at s/ms/us/ns (rounding-error abstraction over the reals, sound over-approximation of float64); (d) scalar "
         "and array conversion build the same float64 term; (e) time_track over the reals for len <= 4; (f) timestamp channels "
         "in little-/big-endian (mixed) files read lazily and eagerly, raw and as datetime64, with symbolic windows/indices "
         "(C04 harness) against the oracle's (seconds, fractions).",
    note="Trusted: z3/cvc5, the stub of NumPy datetime64/timedelta64 arithmetic in vf/sxfp.py (int64 counts, true division in "
         "float64, float*timedelta truncation), the struct model. Monotonicity in (seconds, fractions) and np.linspace's float "
         "rounding are not decided (see DESIGN.md); the exact-FP form of (c) times out and is replaced by the abstraction.",
    technique="symbolic execution of the real code on bit-vector/float64 terms + SMT (QF_BVFP z3 + cvc5; QF_NRA/LIA z3); replay gate",
)

SECONDS_QUICK = [0, 3600 * 24 * 365 * 116 + 12345, -1, 2 ** 31, -86400 * 365 * 30 - 7, 10 ** 10 + 1, -(10 ** 10) - 3]
SECONDS_THOROUGH = SECONDS_QUICK + [1, 59, 2 ** 31 - 1, -2 ** 31, 2 ** 32 + 5, 3786825600, -2082844800, 86399, 4102444800,
                                    -1000000007, 10 ** 10, 2 * 10 ** 10 + 7, 4 * 10 ** 10]

META = dict(
    level='other',
    functions=['types.TimeStamp.__init__', 'types.TimeStamp.read', 'timestamp.TdmsTimestamp.bytes',
               'timestamp.TdmsTimestamp.as_datetime64', 'timestamp.TimestampArray.as_datetime64',
               'tdms.TdmsChannel.time_track'],
    bounds=dict(quick='(a) all 10^6 microseconds x %d sampled seconds values; (b) all int64 x uint64; (c) all uint64 fractions, '
                      'seconds in int64, 4 resolutions; (d) 5 resolutions; (e) len 0..3' % len(SECONDS_QUICK),
                thorough='(a) %d seconds values; (e) len 0..4' % len(SECONDS_THOROUGH)),
    outside=['monotonicity of the conversion (QF_BVFP lemma does not finish)', 'np.linspace float rounding (time_track decided over the reals)',
             'absolute time_track (astype to timedelta64 is C-level)', 'ps resolution in (c)', 'seconds outside the sampled values in (a)'],
    stubs=['NumPy datetime64/timedelta64 scalar arithmetic (vf/sxfp.py SymDT64, SymTD)', 'struct.pack/unpack model',
           'float64 rounding abstracted as relative error 2^-53 per operation in (c)'],
    assumptions=['CPython int->float conversion and NumPy uint64->float64 are round-to-nearest-even', 'float->int casts truncate'],
    buckets=dict(all=['roundtrip-query', 'rawbytes-le', 'rawbytes-be', 'within-one-unit', 'scalar-array-agree', 'time-track', 'file-raw', 'file-datetime64']),
    replays_per_signature=3,
    validate_samples=0,
    explanation="Each task is one solver obligation (or a handful of paths ending in one) over the real timestamp code; see MANIFEST text.",
)


def tasks(tier, seed):
    ts = []
    for s in (SECONDS_QUICK if tier == 'quick' else SECONDS_THOROUGH):
        ts.append(dict(kind='roundtrip', seconds=s))
    ts.append(dict(kind='rawbytes', endian='<'))
    ts.append(dict(kind='rawbytes', endian='>'))
    for res in ('s', 'ms', 'us', 'ns'):
        ts.append(dict(kind='within', res=res))
    for res in ('s', 'ms', 'us', 'ns', 'ps'):
        ts.append(dict(kind='agree', res=res))
    for n in range(0, 4 if tier == 'quick' else 5):
        ts.append(dict(kind='timetrack', n=n))
    # raw timestamps through the file reader (receivers, both byte orders, mixed within a file)
    for bigs in ([False, True], [True, False], [True, True]):
        for mode in ('lazy', 'eager'):
            for raw in (True, False):
                for api in (('read_data', 'index') if tier == 'quick' else ('read_data', 'index', 'slice')):
                    ts.append(dict(kind='file', pid='C12', shape=_ts_shape(bigs), mode=mode, api=api, raw_ts=raw))
    return ts


def _ts_shape(bigs):
    from . import c04
    from .. import s1
    sh = []
    for k, big in enumerate(bigs):
        sh.append(s1.seg([[c04.A, 'full', 0x44, 2], [c04.B, 'full', 3, 1]], 2 if k == 0 else 1, big=big))
    return sh


# ----------------------------------------------------------------------------- dispatcher models for the FP world
class FakeFile:
    def __init__(self, payload):
        self.payload = payload

    def read(self, n):
        return self.payload


def _extra(f, a, k):
    if f is isinstance and isinstance(a[0], SymDT64):
        t = a[1] if isinstance(a[1], tuple) else (a[1],)
        return True, (np.datetime64 in t)
    if f is isinstance and isinstance(a[0], (FInt, AInt)):
        t = a[1] if isinstance(a[1], tuple) else (a[1],)
        return True, (int in t)
    if f is int and len(a) == 1:
        if isinstance(a[0], FFloat):
            return True, a[0].trunc_int()
        if isinstance(a[0], FInt):
            return True, a[0]
    if f is np.timedelta64 and len(a) == 2:
        if isinstance(a[0], FInt):
            return True, SymTD(a[0], a[1])
        if isinstance(a[0], AInt):
            return True, ATD(a[0].e, a[1])
    if f is _struct.pack and any(isinstance(x, FInt) for x in a[1:]):
        return True, PackedTS(a[0], list(a[1:]))
    if f is _struct.unpack and isinstance(a[1], PackedTS):
        p = a[1]
        if sorted(p.fmt[1:]) != sorted(a[0][1:]):
            raise _struct.error('format mismatch')
        byc = dict(zip(p.fmt[1:], p.values))
        return True, tuple(byc[c] for c in a[0][1:])
    return False, None


class AInt:
    """integer in the abstract world (z3 Int); int / float -> AFloat"""
    __array_ufunc__ = None

    def __init__(self, e):
        self.e = e

    def __truediv__(self, o):
        ctx = Ctx.cur
        return AFloat(z3.ToReal(self.e) * (1 + AFloat._err(ctx)), ctx) / o


class ArrShim:
    """`self` stand-in for TimestampArray.as_datetime64: one-element columns"""

    def __init__(self, seconds, fractions):
        self.cols = {'seconds': ArrCol(seconds), 'second_fractions': ArrCol(fractions)}

    def __getitem__(self, name):
        return self.cols[name]


class ArrCol:
    __array_ufunc__ = None

    def __init__(self, v):
        self.v = v

    def __mul__(self, o):
        if isinstance(o, np.timedelta64):
            k, unit = sxfp.td_us(o)
            return SymTD(self.v * k, unit)
        return NotImplemented

    def __truediv__(self, o):
        return self.v / o


def _install_models():
    from .. import dispatch
    if _extra not in dispatch.EXTRA:
        dispatch.EXTRA.append(_extra)
        dispatch._SYM = dispatch._SYM + (FInt, FFloat, SymTD, SymDT64, PackedTS, AInt, AFloat, ATD)


def _total(dt):
    """integer microsecond count (BV) of a SymDT64 in 'us'"""
    assert dt.unit == 'us', dt.unit
    return sxfp.bv(dt.n)


# ----------------------------------------------------------------------------- harnesses
def run_task(task):
    _install_models()
    kind = task['kind']
    out = dict(paths=0, aborted=0, queries=0, solver_s=0.0, obligations=0, discharged=0, violations=[],
               inconclusive=[], notes={}, samples=[], truncated=False, concretisations=0)
    if kind == 'roundtrip':
        return _roundtrip(task, out)
    if kind == 'rawbytes':
        return _rawbytes(task, out)
    if kind == 'within':
        return _within(task, out)
    if kind == 'agree':
        return _agree(task, out)
    if kind == 'file':
        from . import c04
        st = c04.run_task(task)
        st['notes'] = {'file-' + ('raw' if task['raw_ts'] else 'datetime64'): st['paths']}
        return st
    return _timetrack(task, out)


def _ref_table():
    """The reference (pinned-tree) round trip  us -> int(int(us*K0)/K0), evaluated concretely once.  It is a
    constant of this check, not the code under test."""
    bad = {}
    for us in range(10 ** 6):
        back = int(int(us * K0) / K0)
        if back != us:
            bad[us] = back
    return bad


def _roundtrip(task, out):
    from nptdms.types import TimeStamp
    S = task['seconds']
    epoch1904_us = -2082844800 * 10 ** 6
    queries = []

    def fn(ctx):
        us = z3.BitVec('us', W)
        ctx.inputs['us'] = us
        ctx.add(z3.ULT(us, 10 ** 6))
        total = z3.BitVecVal(epoch1904_us + S * 10 ** 6, W) + us
        value = SymDT64(FInt(total), 'us')
        ts = TimeStamp(value)
        fr, sec = ts.bytes.values
        ctx.add(z3.And(sxfp.bv(fr) >= 0, sxfp.bv(fr) < z3.BitVecVal(2 ** 64, W)))      # else struct.pack raises
        back = TimeStamp.read(FakeFile(ts.bytes), '<').as_datetime64('us')
        ref_fr = z3.fpToSBV(sxfp.RTZ, z3.fpMul(sxfp.RNE, z3.fpSignedToFP(sxfp.RNE, us, sxfp.F64), sxfp.fpval(K0)), z3.BitVecSort(W))
        ref_back = z3.fpToSBV(sxfp.RTZ, z3.fpDiv(sxfp.RNE, z3.fpSignedToFP(sxfp.RNE, ref_fr, sxfp.F64), sxfp.fpval(K0)), z3.BitVecSort(W))
        queries.append((list(ctx.pc), us, total, _total(back), ref_back))

    st = explore(fn, max_paths=64, timeout_ms=300000)
    for k in ('paths', 'aborted', 'queries', 'solver_s'):
        out[k] += st[k]
    out['inconclusive'] += st['inconclusive']
    if not queries:
        out['inconclusive'].append('round-trip harness produced no path')
        return out
    out['notes']['roundtrip-query'] = len(queries)
    ref_bad = None
    for (pc, us, total, bt, ref_back) in queries:
        out['obligations'] += 1
        sample = dict(inputs_example=None, obligation='forall us on this path: read(write(t)) == t, seconds=%d' % S)
        # step 1: is the real code equivalent to the pinned reference formula on this path?
        diff_real, diff_ref = z3.simplify(bt - total), z3.simplify(ref_back - us)
        if z3.eq(diff_real, diff_ref):
            eqv, info = 'unsat', dict(structural=True)
        else:
            eqv, _, info = sxfp.solve_bvfp(pc + [diff_real != diff_ref], timeout_s=120)
            out['queries'] += 2
        sample['equivalence_to_reference'] = dict(verdict=eqv, info=info)
        if eqv == 'unsat':
            # violations on this path are exactly the us with ref(us) != us: all must be the recorded shape
            if ref_bad is None:
                ref_bad = _ref_table()
            s = z3.Solver()
            s.set('timeout', 120000)
            s.add(*pc)
            feas = None
            others = [u for u, b in ref_bad.items() if b != u - 1]
            if others:
                out['violations'].append(dict(what='roundtrip-new', inputs=dict(us=others[0], seconds=S)))
            else:
                out['discharged'] += 1
            # witness of the recorded finding on this path
            v2, m2, info2 = sxfp.solve_bvfp(pc + [bt != total], timeout_s=300, want_model=['us'])
            out['queries'] += 2
            if v2 == 'sat':
                out['violations'].append(dict(what='roundtrip-one-us-early', inputs=dict(us=m2.get('us'), seconds=S), solver=info2))
            elif v2 == 'unknown':
                out['inconclusive'].append('witness query undecided: %r' % (info2,))
            sample['known_set_size'] = len(ref_bad)
        else:
            # the code differs from the reference: decide the property directly
            known = z3.And(ref_back == us - 1, bt == total - 1)
            v, m, info1 = sxfp.solve_bvfp(pc + [bt != total, z3.Not(known)], timeout_s=600, want_model=['us'])
            out['queries'] += 2
            sample['direct'] = dict(verdict=v, info=info1)
            if v == 'unsat':
                out['discharged'] += 1
            elif v == 'sat':
                out['violations'].append(dict(what='roundtrip-new', inputs=dict(us=m.get('us'), seconds=S), solver=info1))
            else:
                out['inconclusive'].append('round-trip query undecided: %r' % (info1,))
            v2, m2, info2 = sxfp.solve_bvfp(pc + [bt != total, known], timeout_s=300, want_model=['us'])
            if v2 == 'sat':
                out['violations'].append(dict(what='roundtrip-one-us-early', inputs=dict(us=m2.get('us'), seconds=S), solver=info2))
        out['samples'].append(sample)
    out['paths'] = max(out['paths'], 1)
    return out


def _rawbytes(task, out):
    from nptdms.types import TimeStamp
    from nptdms.timestamp import TdmsTimestamp
    from ..stream import Builder, SymStream
    endian = task['endian']

    def fn(ctx):
        s = ctx.int('seconds', -2 ** 63, 2 ** 63 - 1)
        f = ctx.int('fractions', 0, 2 ** 64 - 1)
        if endian == '<':
            data = TdmsTimestamp(s, f).bytes            # the writer's (and defragment's) serialisation
            b = Builder()
            b.items(data)
        else:
            b = Builder()
            b.field(SymInt.mk(z3.If(s.e < 0, s.e + 2 ** 64, s.e)), 8, '>')
            b.field(f, 8, '>')
        t = TimeStamp.read(SymStream(b.regions), endian)
        ctx.prove(z3.And(ex(t.seconds) == s.e, ex(t.second_fractions) == f.e), what='raw-bytes-roundtrip')
        ctx.note('rawbytes-le' if endian == '<' else 'rawbytes-be')

    st = explore(fn, max_paths=256)
    st.pop('wall_s', None)
    return st


def _within(task, out):
    from nptdms.timestamp import TdmsTimestamp
    res = task['res']
    units = {'s': 1, 'ms': 10 ** 3, 'us': 10 ** 6, 'ns': 10 ** 9}[res]

    def fn(ctx):
        s = z3.Int('seconds')
        f = z3.Int('fractions')
        ctx.inputs.update(seconds=s, fractions=f)
        ctx.add(z3.And(s >= -2 ** 63, s < 2 ** 63, f >= 0, f < 2 ** 64))
        r = TdmsTimestamp(AInt(s), AInt(f)).as_datetime64(res)
        parts = r.parts
        tds = [p for p in parts if isinstance(p, ATD)]
        secs = [p for p in tds if p.unit == 's']
        fracs = [p for p in tds if p.unit == res and p not in secs] if res != 's' else tds[1:]
        if res == 's':
            secs = tds[:1]
        if len(secs) != 1 or len(fracs) != 1 or not any(isinstance(p, np.datetime64) and p == np.datetime64('1904-01-01', 's') for p in parts):
            ctx.fail('structure', parts=[repr(p) for p in parts])
        t = fracs[0].n
        exact = z3.ToReal(f) * units / (2 ** 64)
        fl = z3.Int('floor_exact')
        cons = list(ctx.pc) + [z3.ToReal(fl) <= exact, exact < z3.ToReal(fl) + 1,
                               z3.Or(secs[0].n != s, t - fl > 1, fl - t > 1)]
        solver = z3.Solver()
        solver.set('timeout', 120000)
        solver.add(*cons)
        ctx.obligations += 1
        ctx.nqueries += 1
        rr = solver.check()
        if rr == z3.unsat:
            ctx.discharged += 1
        elif rr == z3.sat:
            m = solver.model()
            # the abstraction over-approximates: a model is only a candidate -> concrete replay decides
            from ..sx import Violation
            raise Violation(dict(what='not-within-one-unit', inputs=dict(seconds=m.eval(s, True).as_long(),
                                 fractions=m.eval(f, True).as_long()), res=res))
        else:
            raise Inconclusive('within-one-unit undecided')
        ctx.note('within-one-unit')

    st = explore(fn, max_paths=64)
    st.pop('wall_s', None)
    return st


def _agree(task, out):
    from nptdms.timestamp import TdmsTimestamp, TimestampArray
    res = task['res']

    def fn(ctx):
        s = z3.BitVec('seconds', W)
        f = z3.BitVec('fractions', W)
        a = TdmsTimestamp(FInt(s), FInt(f)).as_datetime64(res)
        b = TimestampArray.as_datetime64(ArrShim(FInt(s), FInt(f)), res)
        ctx.obligations += 1
        if a.unit != b.unit:
            ctx.fail('scalar-array-unit', scalar=a.unit, array=b.unit)
        ea, eb = z3.simplify(sxfp.bv(a.n)), z3.simplify(sxfp.bv(b.n))
        if z3.eq(ea, eb):
            ctx.discharged += 1
        else:
            sol = z3.Solver()
            sol.set('timeout', 120000)
            sol.add(z3.And(s >= -2 ** 40, s < 2 ** 40, f >= 0, z3.ULT(f, z3.BitVecVal(2 ** 64, W)), ea != eb))
            rr = sol.check()
            ctx.nqueries += 1
            if rr == z3.unsat:
                ctx.discharged += 1
            elif rr == z3.sat:
                m = sol.model()
                from ..sx import Violation
                raise Violation(dict(what='scalar-array-differ', res=res,
                                     inputs=dict(seconds=_signed(m.eval(s, True).as_long()), fractions=m.eval(f, True).as_long())))
            else:
                raise Inconclusive('scalar/array agreement undecided')
        ctx.note('scalar-array-agree')

    st = explore(fn, max_paths=64)
    st.pop('wall_s', None)
    return st


def _signed(v):
    return v - 2 ** W if v >= 2 ** (W - 1) else v


def _timetrack(task, out):
    from nptdms.tdms import TdmsChannel
    from nptdms.common import ObjectPath
    from ..sxreal import SymReal, nra_check
    n = task['n']

    WITNESSES = [(0.0, 0.1), (1.0, 0.1), (0.25, 0.001), (-3.5, 2.0), (0.0, 0.0), (1e9, 1e-6), (0.1, 0.7)]

    def fn(ctx):
        # concrete float witnesses (length and end points): np.linspace's own rounding is outside the real-valued claim
        import numpy as np
        for (o, i) in WITNESSES:
            chc = TdmsChannel(ObjectPath('g', 'c'), None, None, n, {'wf_start_offset': o, 'wf_increment': i}, {}, {}, None, False, None)
            ctx.obligations += 1
            try:
                ttc = chc.time_track()
            except Exception as e:
                ctx.fail('time-track-exception', exc=type(e).__name__, n=n, offset=o, increment=i)
            if len(ttc) != n or (n > 0 and ttc[0] != o) or (n > 1 and abs(ttc[-1] - (o + (n - 1) * i)) > 1e-9 * max(1.0, abs(o + (n - 1) * i))):
                ctx.fail('time-track-witness', n=n, offset=o, increment=i, got=[float(v) for v in ttc][:5])
            ctx.discharged += 1
        off, inc = z3.Real('offset'), z3.Real('increment')
        ch = TdmsChannel(ObjectPath('g', 'c'), None, None, n,
                         {'wf_start_offset': SymReal(off), 'wf_increment': SymReal(inc)}, {}, {}, None, False, None)
        tt = ch.time_track()
        ctx.obligations += 1
        if len(tt) != n:
            ctx.fail('time-track-length', got=len(tt), expected=n)
        bad = []
        for i in range(n):
            v = tt[i]
            e = v.e if isinstance(v, SymReal) else None
            if e is None:
                ctx.fail('time-track-type', got=repr(v))
            bad.append(e != off + i * inc)
        if bad:
            r, m = nra_check(list(ctx.pc) + [z3.Or(*bad)])
            ctx.nqueries += 1
            if r == z3.sat:
                from ..sx import Violation
                raise Violation(dict(what='time-track-values', inputs=dict(n=n, offset=str(m.eval(off, True)), increment=str(m.eval(inc, True)))))
            if r != z3.unsat:
                raise Inconclusive('time_track undecided')
        ctx.discharged += 1
        ctx.note('time-track')

    st = explore(fn, max_paths=64)
    st.pop('wall_s', None)
    return st


# ----------------------------------------------------------------------------- replay
def signature(c):
    what = c.get('what', '')
    if c['task']['kind'] == 'file':
        from . import c04
        return c04.signature(c) + ('/raw' if c['task'].get('raw_ts') else '')
    return 'C12/%s/%s' % (c['task']['kind'], what)


def replay(art):
    from nptdms.types import TimeStamp
    from nptdms.timestamp import TdmsTimestamp, TimestampArray
    import io
    task, inp = art['task'], art['inputs']
    kind = task['kind']
    if kind == 'file':
        from . import c04
        r = c04.replay(art)
        if r is not None and task.get('raw_ts'):
            r['sig'] = r['sig'] + '/raw'
        return r
    if kind == 'roundtrip':
        S, us = inp['seconds'], inp['us']
        dt = np.datetime64('1904-01-01T00:00:00', 'us') + np.timedelta64(S, 's') + np.timedelta64(us, 'us')
        b = TimeStamp(dt).bytes
        back = TimeStamp.read(io.BytesIO(b), '<').as_datetime64('us')
        if back == dt:
            return None
        diff = int((back - dt) / np.timedelta64(1, 'us'))
        ref = int(int(us * K0) / K0)
        if diff == -1 and ref == us - 1:
            what = 'roundtrip-one-us-early'
        else:
            what = 'roundtrip-new'
        return dict(sig=signature(dict(task=task, what=what)), wrote=str(dt), read=str(back), us=us, seconds=S)
    if kind == 'rawbytes':
        s, f = inp['seconds'], inp['fractions']
        if task['endian'] == '<':
            t = TimeStamp.read(io.BytesIO(TdmsTimestamp(s, f).bytes), '<')
        else:
            t = TimeStamp.read(io.BytesIO(_struct.pack('>qQ', s, f)), '>')
        if (t.seconds, t.second_fractions) != (s, f):
            return dict(sig=signature(dict(task=task, what='raw-bytes-roundtrip')), wrote=[s, f], read=[t.seconds, t.second_fractions])
        return None
    if kind == 'within':
        s, f = inp['seconds'], inp['fractions']
        res = task['res']
        units = {'s': 1, 'ms': 10 ** 3, 'us': 10 ** 6, 'ns': 10 ** 9}[res]
        try:
            got = TdmsTimestamp(s, f).as_datetime64(res)
        except Exception:
            return None         # out of datetime64 range: outside the property
        base = np.datetime64('1904-01-01T00:00:00', res) + np.timedelta64(s, 's')
        t = int((got - base) / np.timedelta64(1, res))
        exact = Fraction(f * units, 2 ** 64)
        if abs(t - (f * units) // 2 ** 64) > 1:
            return dict(sig=signature(dict(task=task, what='not-within-one-unit')), seconds=s, fractions=f, got=t, exact=float(exact))
        return None
    if kind == 'agree':
        s, f = inp['seconds'], inp['fractions']
        res = task['res']
        arr = np.array([(f, s)], dtype=[('second_fractions', '<u8'), ('seconds', '<i8')])
        a = TdmsTimestamp(s, f).as_datetime64(res)
        b = TimestampArray(arr).as_datetime64(res)[0]
        if a != b:
            return dict(sig=signature(dict(task=task, what='scalar-array-differ')), scalar=str(a), array=str(b))
        return None
    if kind == 'timetrack':
        from nptdms.tdms import TdmsChannel
        from nptdms.common import ObjectPath
        n = task['n']
        for (o, i) in [(0.0, 0.1), (1.0, 0.1), (0.25, 0.001), (-3.5, 2.0), (0.0, 0.0), (1e9, 1e-6), (0.1, 0.7)]:
            chc = TdmsChannel(ObjectPath('g', 'c'), None, None, n, {'wf_start_offset': o, 'wf_increment': i}, {}, {}, None, False, None)
            try:
                tt = chc.time_track()
            except Exception as e:
                return dict(sig=signature(dict(task=task, what='time-track-exception')), n=n, offset=o, increment=i, exception=repr(e)[:100])
            if len(tt) != n or (n > 0 and tt[0] != o) or (n > 1 and abs(tt[-1] - (o + (n - 1) * i)) > 1e-9 * max(1.0, abs(o + (n - 1) * i))):
                return dict(sig=signature(dict(task=task, what='time-track-witness')), n=n, offset=o, increment=i, got=[float(v) for v in tt][:5])
        return None
    return None

"""C07 -- what TdmsWriter writes is what TdmsFile reads.

S2: the instrumented writer writes a program with symbolic pieces into a sink; the instrumented
reader reads the very bytes written (symbolic bytes included); results are compared with what
was handed to the writer.  Kernel lemma: integer property type selection and round trip for an
unbounded symbolic integer.  (_infer_dtype for Python int lists can pick a dtype that is too narrow, e.g.
[128, -1] -> int8, but NumPy >= 2 then raises OverflowError in np.array: the program is not accepted, so
no round trip is corrupted; not an obligation here.)"""
import io
import numpy as np
import z3
from ..sx import explore, PathAbort, SymInt, ex, Inconclusive
from ..sxstr import SymStr
from .. import wr, tdmsmodel as tm, s1
from . import c08

K0 = float(10 ** -6) / 2 ** -64

MANIFEST = dict(
    category='model_checking',
    text="Bounded symbolic execution of writer and reader back to back on the same (partly symbolic) bytes: programs of 1-2 sessions "
         "(append) x 1-2 write_segment calls, versions 4712/4713, every writable array dtype (+ Python int lists, strings, datetimes, "
         "empty arrays), properties of every supported value type with integer magnitudes and string code points symbolic: per "
         "channel the concatenation of the arrays with the same dtype and values, per object the last property value, the property "
         "TDMS type chosen by magnitude (Int32 / Int64 / Uint64: proved for every integer in [-2^63, 2^64)), names and unicode "
         "preserved.",
    note="Trusted: z3, sx engine, struct model (both directions), SymStr.encode / provenance-based decode, SinkStream/SymStream. "
         "Numeric array contents are concrete planted values (ndarray.tobytes is C-level). The microsecond timestamp round trip is "
         "decided exactly in C12; here one known-failing value is replayed and reported as the recorded finding.",
    technique="bounded symbolic execution of writer+reader on shared symbolic bytes + SMT (z3, QF_LIA) per path; replay gate",
)

META = dict(
    level='model_checking',
    functions=c08.META['functions'] + ['writer._infer_dtype', 'writer._to_np_array', 'writer.ChannelObject.data_type',
                                       'reader.TdmsReader.read_metadata', 'tdms_segment.read_property', 'types.String.read',
                                       'types.String.read_values', 'types.StructType.read', 'tdms.TdmsFile._read_file'],
    bounds=c08.META['bounds'],
    outside=c08.META['outside'] + ['all microsecond values of datetimes (C12)'],
    stubs=c08.META['stubs'] + ['SymBytes.decode returns the symbolic characters an aligned span was encoded from'],
    assumptions=['a program the writer raises on is not an accepted program'],
    buckets=dict(all=['roundtrip', 'int-type-by-magnitude', 'symbolic-string-roundtrip', 'append-session',
                      'string-channel-roundtrip']),
    replays_per_signature=3,
    validate_samples=8,
)


def tasks(tier, seed):
    ts = [dict(t, kind='prog') for t in c08.tasks(tier, seed) if t.get('kind') != 'paths']
    # repeated string channel with different byte sizes across segments and sessions
    ts.append(dict(kind='strings', split=False))
    ts.append(dict(kind='strings', split=True))
    ts.append(dict(kind='intprop'))
    ts.append(dict(kind='ts-known'))
    return ts


def _int_type_formula(v, tcode):
    """TDMS type chosen for an integer property value v (z3 Int)"""
    return z3.If(v >= 2 ** 63, tcode == 8, z3.If(z3.Or(v >= 2 ** 31, v < -2 ** 31), tcode == 4, tcode == 3))


def compare(ctx, tf, prog, segs):
    """read-back vs. written.  ctx=None in replay mode (returns first problem as dict)."""
    def fail(what, **kw):
        if ctx is not None:
            ctx.fail(what, **kw)
        raise _Problem(dict(what=what, **kw))

    def prove(expr, what, **kw):
        if ctx is not None:
            ctx.prove(expr, kw, what=what)
        elif not z3.is_true(z3.simplify(expr)):
            raise _Problem(dict(what=what, **kw))
    # hierarchy: groups and channels in order of first appearance
    groups, chans = [], {}
    for p in prog.order:
        parts = tm.split_path(p)
        if len(parts) >= 1 and parts[0] not in groups:
            groups.append(parts[0])
        if len(parts) == 2:
            chans.setdefault(parts[0], [])
            if parts[1] not in chans[parts[0]]:
                chans[parts[0]].append(parts[1])
    got_groups = [g.name for g in tf.groups()]
    if sorted(got_groups) != sorted(groups):
        fail('groups', got=got_groups, expected=groups)
    for g in tf.groups():
        if [c.name for c in g.channels()] != chans.get(g.name, []):
            fail('channels', group=g.name, got=[c.name for c in g.channels()], expected=chans.get(g.name, []))
    # declared property types (from the bytes, independent parser): last write wins
    ptypes = {}
    for sg in segs:
        for o in sg['objs']:
            for (name, ptype, val) in o['props']:
                nm = name.decode('utf-8') if isinstance(name, (bytes, bytearray)) else name
                ptypes[(o['path'], nm if isinstance(nm, str) else repr(nm))] = ptype
    objs = [('/', tf.properties)] + [(tm.make_path(g.name), g.properties) for g in tf.groups()] + \
           [(tm.make_path(g.name, c.name), c.properties) for g in tf.groups() for c in g.channels()]
    for path, props in objs:
        exp = prog.props.get(path, {})
        if sorted(props.keys()) != sorted(exp.keys()):
            fail('property-names', object=path, got=sorted(props.keys()), expected=sorted(exp.keys()))
        for name, (kind, val) in exp.items():
            got = props[name]
            pt = ptypes.get((path, name))
            if kind == 'int':
                if isinstance(val, SymInt):
                    prove(z3.And(ex(got) == val.e, _int_type_formula(val.e, z3.IntVal(pt))), 'int-property', object=path, name=name, ptype=pt)
                else:
                    if type(got) is not int or int(got) != val or not z3.is_true(z3.simplify(_int_type_formula(z3.IntVal(val), z3.IntVal(pt)))):
                        fail('int-property', object=path, name=name, got=int(got), expected=val, ptype=pt)
            elif kind == 'String':
                if isinstance(val, SymStr) or isinstance(got, SymStr):
                    g_ = got if isinstance(got, SymStr) else SymStr(list(got))
                    prove(g_.expr_eq(val), 'string-property', object=path, name=name)
                elif got != val:
                    fail('string-property', object=path, name=name, got=got, expected=val)
                if pt != 0x20:
                    fail('property-type', object=path, name=name, ptype=pt)
            elif kind == 'DoubleFloat':
                import struct as _st
                if not (type(got) is float and _st.pack('<d', got) == _st.pack('<d', val) and pt == 10):
                    fail('float-property', object=path, name=name, got=repr(got), ptype=pt)
            elif kind == 'Boolean':
                if not (got is val and pt == 0x21):
                    fail('bool-property', object=path, name=name, got=repr(got), ptype=pt)
            elif kind == 'TimeStamp':
                if not (isinstance(got, np.datetime64) and int(got.astype('datetime64[us]').astype('int64')) == val and pt == 0x44):
                    fail('timestamp-property', object=path, name=name, got=str(got), expected=val, ptype=pt)
            else:       # numpy scalar / explicit wrapper: TDMS type name + value
                tcode = [k for k, v in tm.TYPES.items() if v[0] == kind][0]
                if pt != tcode:
                    fail('property-type', object=path, name=name, ptype=pt, expected=tcode)
                if isinstance(val, bytes):
                    ch = tm.TYPES[tcode][2]
                    import struct
                    if struct.pack('<' + ch, got) != val:
                        fail('numpy-property', object=path, name=name, got=repr(got))
                elif got != val:
                    fail('wrapped-property', object=path, name=name, got=repr(got), expected=val)
    # channel data
    for g in tf.groups():
        for c in g.channels():
            path = tm.make_path(g.name, c.name)
            exp = prog.channels[path]
            tag, vals = exp['tag'], exp['values']
            arr = c[:]
            if len(arr) != len(vals) or len(c) != len(vals):
                fail('channel-length', channel=path, got=len(arr), expected=len(vals))
            if tag in ('str', 'symstr'):
                conj = []
                for a, b in zip(list(arr), vals):
                    if isinstance(a, SymStr) or isinstance(b, SymStr):
                        a_ = a if isinstance(a, SymStr) else SymStr(list(a))
                        conj.append(a_.expr_eq(b))
                    elif a != b:
                        fail('string-data', channel=path, got=list(map(str, arr)), expected=list(map(str, vals)))
                if conj:
                    prove(z3.And(*conj), 'string-data', channel=path)
                continue
            if len(vals) == 0:
                # a channel only ever written with empty arrays of a NumPy numeric dtype still has that dtype
                if tag in wr.NP_TAGS and str(np.asarray(arr).dtype.newbyteorder('=')) != tag:
                    fail('empty-channel-dtype', channel=path, got=str(np.asarray(arr).dtype), expected=tag)
                continue
            want_dtype = 'datetime64[us]' if tag == 'datetime64' else tag
            if str(np.asarray(arr).dtype.newbyteorder('=')).replace('<', '').replace('M8', 'datetime64') != want_dtype:
                fail('channel-dtype', channel=path, got=str(np.asarray(arr).dtype), expected=want_dtype)
            if wr.canon_written(arr, tag) != vals:
                fail('channel-values', channel=path, got=[s1.show(x) for x in wr.canon_written(arr, tag)][:6],
                     expected=[s1.show(x) for x in vals][:6])


class _Problem(Exception):
    pass


def _roundtrip(ctx, sessions, with_index=False):
    from nptdms import TdmsFile
    try:
        data, index, prog = wr.run_program(ctx, sessions, with_index=with_index)
    except PathAbort:
        raise
    except TypeError as e:
        if "'NoneType' and 'int'" in str(e):
            raise PathAbort()
        ctx.fail('writer-exception', exc=type(e).__name__, msg=str(e)[:120])
    except Exception as e:
        ctx.fail('writer-exception', exc=type(e).__name__, msg=str(e)[:120])
    segs, problems = wr.parse_structure(data.items, b'TDSm', True)
    if not data.items:
        raise PathAbort()           # every call was rejected: nothing was written, nothing to read
    try:
        tf = TdmsFile.read(data.to_stream())
    except PathAbort:
        raise
    except Inconclusive:
        raise
    except Exception as e:
        ctx.fail('reader-exception', exc=type(e).__name__, msg=str(e)[:120])
    ctx.obligations += 1
    compare(ctx, tf, prog, segs)
    ctx.discharged += 1
    return prog


def run_task(task):
    kind = task['kind']

    def prog(ctx):
        sessions = c08.gen_program(task, ctx.choice)
        ctx.info['program'] = str(sessions)[:300]
        p = _roundtrip(ctx, sessions)
        ctx.note('roundtrip')
        if len(task['sessions']) > 1:
            ctx.note('append-session')
        if any(isinstance(v[1], SymStr) for d in p.props.values() for v in d.values()):
            ctx.note('symbolic-string-roundtrip')
        if any(ch['tag'] in ('str', 'symstr') and ch['values'] for ch in p.channels.values()):
            ctx.note('string-channel-roundtrip')

    def strings(ctx):
        # the same string channel written three times with different numbers of characters / bytes
        segs = [[['chan', 'g', 's', 'symstr', 2, []], ['chan', 'g', 'f', 'float64', 2, []]],
                [['chan', 'g', 's', 'str', 2, []], ['chan', 'g', 'f', 'float64', 2, []]],
                [['chan', 'g', 's', 'symstr', 2, []], ['chan', 'g', 'f', 'float64', 1, []]]]
        sessions = [dict(version=4712, segments=segs[:2]), dict(version=4712, segments=segs[2:])] if task['split'] else \
            [dict(version=4713, segments=segs)]
        _roundtrip(ctx, sessions)
        ctx.note('string-channel-roundtrip')
        ctx.note('roundtrip')

    def intprop(ctx):
        # kernel: property type selection and round trip for an unbounded symbolic integer (and rejection outside)
        from nptdms.writer import _to_tdms_value
        from nptdms.tdms_segment import read_property
        from ..stream import Builder, SymStream
        import struct as _s
        v = ctx.int('v')
        try:
            tv = _to_tdms_value(v)
        except _s.error:
            ctx.prove(z3.Or(v.e < -2 ** 63, v.e >= 2 ** 64), what='int-property-rejected-in-range')
            return
        except OverflowError:
            ctx.prove(z3.Or(v.e < -2 ** 63, v.e >= 2 ** 64), what='int-property-rejected-in-range')
            return
        name = 'x'.encode()
        b = Builder()
        b.field(1, 4, '<')
        b.raw(name)
        b.field(tv.enum_value, 4, '<')
        b.items(tv.bytes)
        pname, val = read_property(SymStream(b.regions))
        ctx.prove(z3.And(v.e >= -2 ** 63, v.e < 2 ** 64, ex(val) == v.e, _int_type_formula(v.e, z3.IntVal(tv.enum_value))),
                  what='int-property')
        ctx.note('int-type-by-magnitude')

    def infer(ctx):
        # kernel: _infer_dtype on a list of symbolic Python ints: every element representable in the dtype chosen
        from nptdms.writer import _infer_dtype
        n = task['n']
        xs = [ctx.int('x%d' % i, -2 ** 63, 2 ** 64 - 1) for i in range(n)]
        dt = _infer_dtype(xs)
        if dt is None:
            ctx.fail('no-dtype-inferred')
        info = np.iinfo(dt)
        fits = z3.And(*[z3.And(x.e >= int(info.min), x.e <= int(info.max)) for x in xs])
        # a list mixing values >= 2^63 with negative ones has no integer dtype: outside (np.array raises / object)
        mixed = z3.And(z3.Or(*[x.e >= 2 ** 63 for x in xs]), z3.Or(*[x.e < 0 for x in xs]))
        ctx.prove(z3.Or(fits, mixed), dict(dtype=str(dt)), what='inferred-dtype-too-narrow')
        ctx.note('infer-dtype')

    def ts_known(ctx):
        ctx.obligations += 1
        ctx.fail('timestamp-one-us-early', note='witness of the recorded finding, see C12')

    fn = dict(prog=prog, strings=strings, intprop=intprop, infer=infer)
    if kind == 'ts-known':
        st = explore(ts_known, max_paths=4)
        st['inputs'] = {}
        for v in st['violations']:
            v['inputs'] = dict(us=517325)
    else:
        st = explore(fn[kind], max_paths=30000, time_budget=900)
    st.pop('wall_s', None)
    return st


def signature(c):
    what = c.get('what', '')
    if what in ('writer-exception', 'reader-exception'):
        what += ':' + str(c.get('exc'))
    return 'C07/%s/%s' % (c['task']['kind'], what)


def replay(art):
    from nptdms import TdmsFile
    task, inp = art['task'], art['inputs']
    kind = task['kind']
    if kind == 'ts-known':
        from nptdms.writer import TdmsWriter, RootObject
        us = inp.get('us', 517325)
        dt = np.datetime64('2020-01-01T00:00:16', 'us') + np.timedelta64(us, 'us')
        buf = io.BytesIO()
        with TdmsWriter(buf) as w:
            w.write_segment([RootObject({'t': dt})])
        buf.seek(0)
        got = TdmsFile.read(buf).properties['t']
        if got == dt:
            return None
        diff = int((got - dt) / np.timedelta64(1, 'us'))
        known = diff == -1 and int(int(us * K0) / K0) == us - 1
        return dict(sig='C07/ts-known/timestamp-one-us-early' if known else 'C07/ts-known/timestamp-new', wrote=str(dt), read=str(got))
    if kind == 'prog':
        try:
            data, index = c08.concretize_program(task, inp)
        except Exception as e:
            return dict(sig=signature(dict(task=task, what='writer-exception', exc=type(e).__name__)), exception=repr(e)[:200])
        # rebuild the expectation by running the same program symbolically-free through the Program recorder
        return _replay_compare(task, inp, data)
    if kind == 'intprop':
        from nptdms.writer import TdmsWriter, RootObject
        v = inp['v']
        buf = io.BytesIO()
        try:
            with TdmsWriter(buf) as w:
                w.write_segment([RootObject({'x': v})])
        except Exception as e:
            if -2 ** 63 <= v < 2 ** 64:
                return dict(sig=signature(dict(task=task, what='int-property-rejected-in-range')), v=v, exception=repr(e)[:100])
            return None
        segs, _ = wr.parse_structure(list(buf.getvalue()))
        pt = [p[1] for o in segs[0]['objs'] for p in o['props']][0]
        buf.seek(0)
        got = TdmsFile.read(buf).properties['x']
        exp_t = 8 if v >= 2 ** 63 else (4 if (v >= 2 ** 31 or v < -2 ** 31) else 3)
        if got != v or pt != exp_t:
            return dict(sig=signature(dict(task=task, what='int-property')), v=v, got=int(got), ptype=pt, expected_type=exp_t)
        return None
    if kind == 'infer':
        from nptdms.writer import _infer_dtype
        xs = [inp['x%d' % i] for i in range(task['n'])]
        dt = _infer_dtype(xs)
        info = np.iinfo(dt)
        if not all(info.min <= x <= info.max for x in xs) and not (any(x >= 2 ** 63 for x in xs) and any(x < 0 for x in xs)):
            return dict(sig=signature(dict(task=task, what='inferred-dtype-too-narrow')), values=xs, dtype=str(dt))
        return None
    if kind == 'strings':
        return _replay_strings(task, inp)
    return None


class _ReplayCtx:
    """minimal ctx for wr.Program in replay mode: symbolic values are replaced by the model's concrete values"""

    def __init__(self, inp):
        self.inp, self.inputs = inp, {}

    def int(self, name, lo=None, hi=None):
        return int(self.inp.get(name, 0))

    def add(self, c):
        pass


def _concrete_sym_str(ctx, name, n, **kw):
    return ''.join(chr(ctx.inp.get('%s_%d' % (name, i), 97)) for i in range(n)), []


def _run_concrete(sessions, inp):
    from nptdms import TdmsFile
    from nptdms.writer import TdmsWriter
    ctx = _ReplayCtx(inp)
    old = wr.sym_str
    wr.sym_str = _concrete_sym_str
    try:
        prog = wr.Program(ctx)
        data = io.BytesIO()
        for ses in sessions:
            with TdmsWriter(data, version=ses.get('version', 4712)) as w:
                for seg in ses['segments']:
                    snap = ({k: dict(tag=v['tag'], values=list(v['values'])) for k, v in prog.channels.items()},
                            {k: dict(v) for k, v in prog.props.items()}, list(prog.order))
                    rejected = any(k == 'unsupported' for o in seg for (_, k) in (o[1] if o[0] == 'root' else o[2] if o[0] == 'group' else o[5]))
                    try:
                        w.write_segment([prog.obj(o) for o in seg])
                    except TypeError:
                        if not rejected:
                            raise
                        prog.channels, prog.props, prog.order = snap
    finally:
        wr.sym_str = old
    segs, _ = wr.parse_structure(list(data.getvalue()))
    if not data.getvalue():
        return None
    data.seek(0)
    tf = TdmsFile.read(data)
    try:
        compare(None, tf, prog, segs)
    except _Problem as p:
        return p.args[0]
    return None


def _replay_compare(task, inp, data):
    sessions = c08.gen_program(task, lambda name, n: inp.get(name, 0))
    try:
        r = _run_concrete(sessions, inp)
    except TypeError as e:
        if "'NoneType' and 'int'" in str(e):
            return None
        return dict(sig=signature(dict(task=task, what='writer-exception', exc='TypeError')), exception=repr(e)[:200])
    except Exception as e:
        return dict(sig=signature(dict(task=task, what='reader-exception', exc=type(e).__name__)), exception=repr(e)[:200])
    if r is None:
        return None
    return dict(sig=signature(dict(task=task, what=r['what'])), **{k: (v if isinstance(v, (int, str, list, float)) else str(v)) for k, v in r.items()})


def _replay_strings(task, inp):
    segs = [[['chan', 'g', 's', 'symstr', 2, []], ['chan', 'g', 'f', 'float64', 2, []]],
            [['chan', 'g', 's', 'str', 2, []], ['chan', 'g', 'f', 'float64', 2, []]],
            [['chan', 'g', 's', 'symstr', 2, []], ['chan', 'g', 'f', 'float64', 1, []]]]
    sessions = [dict(version=4712, segments=segs[:2]), dict(version=4712, segments=segs[2:])] if task['split'] else \
        [dict(version=4713, segments=segs)]
    try:
        r = _run_concrete(sessions, inp)
    except Exception as e:
        return dict(sig=signature(dict(task=task, what='reader-exception', exc=type(e).__name__)), exception=repr(e)[:200])
    if r is None:
        return None
    return dict(sig=signature(dict(task=task, what=r['what'])), **{k: (v if isinstance(v, (int, str, list, float)) else str(v)) for k, v in r.items()})

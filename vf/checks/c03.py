"""C03 -- every way of obtaining a channel's data gives the same data.

S1: files from the independent encoder; the access path is a solver-chosen case and the integer
index / window arguments are symbolic; every path's result is compared with the oracle."""
import io
import z3
from .. import s1, tdmsmodel as tm
from ..sx import explore, ex, PathAbort
from . import c04

A, B, C = c04.A, c04.B, "/'g'/'c'"
PATHS_EAGER = ['slice_all', 'ellipsis', 'read_data', 'data', 'iter', 'index', 'index_again', 'full_after_index', 'tail_after_index', 'raw_data', 'read_unscaled', 'window', 'raw_after_scaled']
PATHS_LAZY = ['slice_all', 'ellipsis', 'read_data', 'iter', 'index', 'index_again', 'full_after_index', 'tail_after_index', 'chan_chunks', 'file_chunks', 'read_unscaled', 'window', 'raw_after_scaled']

from . import kdedup

MANIFEST = dict(
    category='model_checking',
    text="Bounded symbolic execution of every documented access path (eager: [:], [...], read_data(), .data, iteration, [i], raw_data, "
         "read_data(scaled=False), windows; lazy: the same plus channel.data_chunks() and TdmsFile.data_chunks() with their offsets) "
         "on files of a stated family (all fixed-width type classes, strings, timestamps in both byte orders with raw_timestamps "
         "on/off, channels without data or without data type, truncated last chunk); the access path is a solver-driven case "
         "split, integer indices and windows are symbolic; each result is compared with the independent oracle, so all paths agree.",
    note="Trusted: z3, sx engine, encoder/oracle. memmap_dir is NOT covered (np.memmap is an OS-backed C object, not encodable); "
         "files are given as streams only. For the type/shape dimension the solver enumerates; it decides the index/window dimension.",
    technique="bounded symbolic execution of the real code + SMT (z3, QF_LIA) per path; replay gate",
)

META = dict(
    level='model_checking',
    functions=['tdms.TdmsFile._read_data', 'tdms.TdmsChannel.__getitem__', 'tdms.TdmsChannel.__iter__', 'tdms.TdmsChannel.data',
               'tdms.TdmsChannel.raw_data', 'tdms.TdmsChannel.read_data', 'tdms.TdmsChannel.data_chunks', 'tdms.TdmsFile.data_chunks',
               'tdms.TdmsChannel._read_at_index', 'tdms._convert_channel_data_chunk', 'channel_data.TimestampDataReceiver',
               'channel_data.NumpyDataReceiver', 'channel_data.ListDataReceiver', 'reader.TdmsReader.read_raw_data',
               'reader._array_equal', 'reader._deduplicate_array'],
    bounds=dict(quick='9 file shapes (2-3 segments, <= 3 channels, <= 3 values x <= 2 chunks) x eager/lazy x raw_timestamps on/off x 13 access '
                      'paths; index and window unbounded (lazy) / bounded (eager); kernel: offset-array comparison of _build_index on arrays of solver '
                      'integers, lengths 0-6 with block size 1-4 (general) and 0..201 around multiples of the default block (one differing position)',
                thorough='same plus the C04 thorough family for the window path'),
    outside=['memmap_dir (not encodable)', 'file given as a path', 'DAQmx (C11)', 'files outside the family'],
    stubs=c04.META['stubs'],
    assumptions=c04.META['assumptions'],
    buckets=dict(all=['eager-all-paths', 'lazy-all-paths', 'chunk-streams', 'raw-timestamps', 'channel-without-type'] + kdedup.BUCKETS),
    replays_per_signature=3,
    validate_samples=10,
)


def shapes():
    out = []
    # mixed types, two segments
    out.append([s1.seg([[A, 'full', 3, 2], [B, 'full', 10, 1], [C, 'full', 0x20, 2]], 2), s1.seg([[A, 'full', 3, 3], [B, 'full', 10, 1]], 1)])
    # timestamps in both byte orders + bool
    out.append([s1.seg([[A, 'full', 0x44, 2], [B, 'full', 0x21, 3]], 1, big=True), s1.seg([[A, 'full', 0x44, 1], [B, 'full', 0x21, 2]], 2)])
    # interleaved int64 / float64
    out.append([s1.seg([[A, 'full', 4, 2], [B, 'full', 10, 2]], 2, inter=True), s1.seg([[A, 'full', 4, 3], [B, 'full', 10, 3]], 1, inter=True)])
    # channel without data type (only ever 'no data'), channel with zero values, property-only group
    out.append([s1.seg([["/'g'", 'nodata', 0, 0, [['p', 3, 5]]], [A, 'full', 2, 2], [B, 'nodata', 0, 0], [C, 'full', 9, 0]], 1),
                s1.seg([[A, 'full', 2, 1], [B, 'nodata', 0, 0]], 2)])
    # channel absent from a middle segment, same-as-previous header
    out.append([s1.seg([[A, 'full', 7, 2], [B, 'full', 5, 1]], 2), s1.seg([[B, 'full', 5, 2]], 1), s1.seg([[A, 'same', 7, 2], [B, 'full', 5, 1]], 2)])
    # truncated final chunk
    out.append([s1.seg([[A, 'full', 3, 2], [B, 'full', 2, 1]], 1), s1.seg([[A, 'full', 3, 3], [B, 'full', 2, 2]], 2, trunc=7)])
    # complex + float32 contiguous, big endian
    out.append([s1.seg([[A, 'full', 0x08000c, 2], [B, 'full', 9, 2]], 2, big=True)])
    # strings, several chunks of equal byte size
    out.append([s1.seg([[A, 'full', 0x20, 2], [B, 'full', 3, 1]], 2), s1.seg([[A, 'full', 0x20, 1]], 1)])
    # the same channels re-listed in a different order with different lengths (index cache keyed by the ordered list)
    out.append([s1.seg([[A, 'full', 3, 2], [B, 'full', 2, 1]], 1), s1.seg([[B, 'full', 2, 3], [A, 'full', 3, 1]], 2),
                s1.seg([[A, 'full', 3, 2], [B, 'full', 2, 1]], 1), s1.seg([[A, 'full', 3, 2], [B, 'full', 2, 1]], 2)])
    # float64 channel with a Strain scale, int32 channel with a Linear scale (scaled access must not disturb raw access)
    strain = [['NI_Number_Of_Scales', 7, 1], ['NI_Scale[0]_Scale_Type', 0x20, 'Strain'], ['NI_Scale[0]_Strain_Configuration', 7, 10183],
              ['NI_Scale[0]_Strain_Poisson_Ratio', 10, 0.3], ['NI_Scale[0]_Strain_Gage_Resistance', 10, 350.0],
              ['NI_Scale[0]_Strain_Lead_Wire_Resistance', 10, 0.0], ['NI_Scale[0]_Strain_Initial_Bridge_Voltage', 10, 0.0],
              ['NI_Scale[0]_Strain_Gage_Factor', 10, 2.0], ['NI_Scale[0]_Strain_Bridge_Shunt_Calibration_Gain_Adjustment', 10, 1.0],
              ['NI_Scale[0]_Strain_Voltage_Excitation', 10, 2.5], ['NI_Scale[0]_Strain_Input_Source', 7, 0xFFFFFFFF]]
    lin = [['NI_Number_Of_Scales', 7, 1], ['NI_Scale[0]_Scale_Type', 0x20, 'Linear'], ['NI_Scale[0]_Linear_Slope', 10, 2.0],
           ['NI_Scale[0]_Linear_Y_Intercept', 10, 1.0], ['NI_Scale[0]_Linear_Input_Source', 7, 0xFFFFFFFF]]
    out.append([s1.seg([[A, 'full', 10, 2, strain], [B, 'full', 3, 2, lin]], 2), s1.seg([[A, 'full', 10, 1], [B, 'full', 3, 1]], 1)])
    # timestamps interleaved with int64
    out.append([s1.seg([[A, 'full', 0x44, 2], [B, 'full', 4, 2]], 2, inter=True)])
    return out


def tasks(tier, seed):
    ts = []
    from .. import shapes as _shapes
    allshapes = shapes() + _shapes.random_family(71 + seed, 6 if tier == 'quick' else 60, need_a=False, allow_trunc=True)
    for si, sh in enumerate(allshapes):
        enc = s1.build(sh)
        for path in sorted(enc.channels):
            has_ts = enc.channels[path].tcode == 0x44
            for mode in ('eager', 'lazy'):
                for raw_ts in ((False, True) if has_ts else (False,)):
                    ts.append(dict(shape=sh, sid=si, channel=path, mode=mode, raw_ts=raw_ts))
    ts += kdedup.tasks(tier)
    return ts


def _is_scaled(shape, path):
    return any(o[0] == path and len(o) > 4 and any(p[0].startswith('NI_Scale') for p in (o[4] or [])) for sg in shape for o in sg['objs'])


def _expected(enc, path, raw_ts):
    ch = enc.channels[path]
    if path == A and any(s.get('trunc') for s in []):
        pass
    full = s1.exp_canon(ch, raw_ts) if ch.tcode is not None else []
    return full, ch.tcode


def _trunc_expected(task, enc, path, raw_ts):
    """expected values honouring a truncated final chunk (rules of the format, see c04.truncated_expected)"""
    ch = enc.channels[path]
    full = s1.exp_canon(ch, raw_ts) if ch.tcode is not None else []
    last = enc.segs[-1]
    if not last['trunc']:
        return full
    avail = last['end'] - last['data_start']
    cs = last['chunk_size']
    nfull, rem = avail // cs, avail % cs
    before = sum(c for s, c in ch.seg_counts.items() if s != last['index'])
    nv = [n for (p, t, n) in last['objs'] if p == path]
    if not nv:
        return full
    keep = before + nfull * nv[0]
    if rem:
        if last['inter']:
            width = sum(tm.TYPES[t][1] for (p, t, n) in last['objs'])
            keep += min(nv[0], rem // width)
        else:
            for (p, t, n) in last['objs']:
                size = tm.TYPES[t][1]
                if p == path:
                    keep += min(n, rem // size)
                    break
                rem -= n * size
                if rem <= 0:
                    break
    return full[:keep]


def _canon(arr, tcode, raw_ts):
    if tcode is None:
        return list(arr)
    return s1.got_canon(arr, tcode, raw_ts)


def _one(v, tcode, raw_ts):
    import numpy as np
    if tcode == 0x44 and raw_ts:
        return ('ts', int(v.seconds), int(v.second_fractions))
    if tcode == 0x20:
        return v
    return s1.got_canon(np.array([v]), tcode, raw_ts)[0]


def access(tf, ch, kind, ctx_int, n, tcode, raw_ts, eager, args=None):
    """Returns (canonical values, expected-slice descriptor)."""
    import numpy as np
    if kind == 'slice_all':
        return _canon(ch[:], tcode, raw_ts), None
    if kind == 'ellipsis':
        return _canon(ch[...], tcode, raw_ts), None
    if kind == 'read_data':
        return _canon(ch.read_data(), tcode, raw_ts), None
    if kind == 'data':
        return _canon(ch.data, tcode, raw_ts), None
    if kind == 'raw_data':
        return _canon(ch.raw_data, tcode, raw_ts), None
    if kind == 'read_unscaled':
        return _canon(ch.read_data(scaled=False), tcode, raw_ts), None
    if kind == 'raw_after_scaled':
        # unscaled data obtained AFTER the scaled data has been produced once (scaling must not touch what it reads)
        if eager:
            ch.data
            ch[:]
            return _canon(ch.raw_data, tcode, raw_ts), None
        for c in ch.data_chunks():
            c[:]
            c[:]
        return _canon(ch.read_data(scaled=False), tcode, raw_ts), None
    if kind == 'iter':
        return [_one(v, tcode, raw_ts) for v in ch], None
    if kind in ('index', 'index_again'):
        i = ctx_int('i', -n - 1 if eager else None, n if eager else None)
        try:
            v = ch[i]
            if kind == 'index_again':
                v = ch[i]           # the same request once more on the same object (served from the one-chunk cache when lazy)
        except IndexError:
            return 'IndexError', ('index', i)
        return [_one(v, tcode, raw_ts)], ('index', i)
    if kind in ('full_after_index', 'tail_after_index'):
        # an integer index first (fills the one-chunk cache when lazy), then an open-ended read of the same channel object
        if n == 0:
            return _canon(ch.read_data(), tcode, raw_ts), None
        i = ctx_int('i', 0, n - 1)
        ch[i]
        if kind == 'full_after_index':
            return _canon(ch.read_data(), tcode, raw_ts), None
        o = ctx_int('offset', 0, n + 1 if eager else None)
        return _canon(ch.read_data(o), tcode, raw_ts), ('window', o, None)
    if kind == 'window':
        o = ctx_int('offset', 0, n + 1 if eager else None)
        l = ctx_int('length', 0, n + 1 if eager else None)
        return _canon(ch.read_data(o, l), tcode, raw_ts), ('window', o, l)
    if kind == 'chan_chunks':
        out, run = [], 0
        for c in ch.data_chunks():
            if c.offset != run:
                return 'offset %r != running count %r' % (c.offset, run), None
            vals = _canon(c[:], tcode, raw_ts)
            if len(vals) != len(c):
                return 'len(chunk) %r != %r values' % (len(c), len(vals)), None
            out += vals
            run += len(vals)
        return out, None
    if kind == 'file_chunks':
        out, run = [], 0
        for dc in tf.data_chunks():
            c = dc[ch.group_name][ch.name]
            if c.offset != run:
                return 'offset %r != running count %r' % (c.offset, run), None
            vals = _canon(c[:], tcode, raw_ts)
            out += vals
            run += len(vals)
        return out, None
    raise ValueError(kind)


def run_task(task):
    from nptdms import TdmsFile
    if task.get('kind') == 'dedup':
        return kdedup.run_task(task)
    enc = s1.build(task['shape'])
    path, raw_ts, eager = task['channel'], task['raw_ts'], task['mode'] == 'eager'
    tcode = enc.channels[path].tcode
    full = _trunc_expected(task, enc, path, raw_ts)
    n = len(full)
    gname, cname = tm.split_path(path)
    kinds = PATHS_EAGER if eager else PATHS_LAZY
    if _is_scaled(task['shape'], path):
        kinds = [k for k in kinds if k in ('raw_data', 'read_unscaled', 'raw_after_scaled')]

    def fn(ctx):
        k = ctx.choice('path', len(kinds))
        kind = kinds[k]
        f = io.BytesIO(enc.data)
        tf = TdmsFile.read(f, raw_timestamps=raw_ts) if eager else TdmsFile.open(f, raw_timestamps=raw_ts)
        try:
            ch = tf[gname][cname]
            if len(ch) != n:
                ctx.fail('len', got=len(ch), expected=n, path=kind)
            try:
                got, req = access(tf, ch, kind, ctx.int, n, tcode, raw_ts, eager)
            except PathAbort:
                raise
            except Exception as e:
                ctx.fail('exception', exc=type(e).__name__, msg=str(e)[:100], path=kind)
            if isinstance(got, str) and got != 'IndexError':
                ctx.fail('chunk-stream', why=got, path=kind)
            if req is None:
                ctx.obligations += 1
                if got != full:
                    ctx.fail('differs', path=kind, got=[s1.show(x) for x in got][:8], expected=[s1.show(x) for x in full][:8])
                ctx.discharged += 1
            elif req[0] == 'index':
                i = ex(req[1])
                if got == 'IndexError':
                    ctx.prove(z3.Or(i < -n, i >= n), what='IndexError-for-valid-index')
                else:
                    alts = [z3.Or(i == c, i == c - n) for c in range(n) if full[c] == got[0]]
                    ctx.prove(z3.Or(*alts) if alts else z3.BoolVal(False), dict(got=s1.show(got[0]), path=kind), what='differs')
            else:
                ctx.prove(s1.window_formula(full, got, req[1], req[2], n), dict(got=[s1.show(x) for x in got], path=kind), what='differs')
            ctx.note('eager-all-paths' if eager else 'lazy-all-paths')
            if kind in ('chan_chunks', 'file_chunks'):
                ctx.note('chunk-streams')
            if raw_ts:
                ctx.note('raw-timestamps')
            if tcode is None:
                ctx.note('channel-without-type')
        finally:
            tf.close()

    st = explore(fn, max_paths=20000, time_budget=600)
    st.pop('wall_s', None)
    return st


def signature(c):
    t = c['task']
    if t.get('kind') == 'dedup':
        return kdedup.signature('C03', c)
    enc = s1.build(t['shape'])
    tcode = enc.channels[t['channel']].tcode
    tname = 'no-data-type' if tcode is None else tm.TYPES[tcode][0]
    what = c.get('what', '')
    if what == 'exception':
        what = 'exception:%s' % c.get('exc')
    return 'C03/%s/%s/%s/%s%s' % (t['mode'], c.get('path', '?'), what, tname, '/raw' if t['raw_ts'] else '')


def replay(art):
    from nptdms import TdmsFile
    task, inp = art['task'], art['inputs']
    if task.get('kind') == 'dedup':
        return kdedup.replay('C03', art)
    enc = s1.build(task['shape'])
    path, raw_ts, eager = task['channel'], task['raw_ts'], task['mode'] == 'eager'
    tcode = enc.channels[path].tcode
    full = _trunc_expected(task, enc, path, raw_ts)
    n = len(full)
    gname, cname = tm.split_path(path)
    kinds = PATHS_EAGER if eager else PATHS_LAZY
    if _is_scaled(task['shape'], path):
        kinds = [k for k in kinds if k in ('raw_data', 'read_unscaled', 'raw_after_scaled')]
    kind = kinds[inp.get('path', 0)]

    def ctx_int(name, lo=None, hi=None):
        return inp[name]
    f = io.BytesIO(enc.data)
    tf = TdmsFile.read(f, raw_timestamps=raw_ts) if eager else TdmsFile.open(f, raw_timestamps=raw_ts)
    try:
        ch = tf[gname][cname]
        if len(ch) != n:
            return dict(sig=signature(dict(task=task, what='len', path=kind)), got=len(ch), expected=n)
        try:
            got, req = access(tf, ch, kind, ctx_int, n, tcode, raw_ts, eager)
        except Exception as e:
            return dict(sig=signature(dict(task=task, what='exception', exc=type(e).__name__, path=kind)), exception=repr(e)[:200])
        if isinstance(got, str) and got != 'IndexError':
            return dict(sig=signature(dict(task=task, what='chunk-stream', path=kind)), why=got)
        if req is None:
            exp = full
        elif req[0] == 'index':
            try:
                exp = [full[req[1]]]
            except IndexError:
                exp = 'IndexError'
        elif req[2] is None:
            exp = full[req[1]:]
        else:
            exp = full[req[1]:req[1] + req[2]]
        if got != exp:
            return dict(sig=signature(dict(task=task, what='differs', path=kind)), request=str(req),
                        got=[s1.show(x) for x in got][:8] if isinstance(got, list) else got,
                        expected=[s1.show(x) for x in exp][:8] if isinstance(exp, list) else exp)
        return None
    finally:
        tf.close()

"""C02 -- segment metadata inheritance never changes what is read.

Every sequence of segments (bounded) x every per-object header encoding (full index restated
identically, full index with a new length, matches-previous, no-data, unlisted) x new-object-list
flag x metadata flag x chunk count x property update is a path (solver-driven case split); the
eager and lazy reads and the reader's per-segment object state are compared with the oracle's
independent statement of the inheritance rules; forbidden encodings must be rejected."""
import io
import itertools
import z3
from .. import s1, tdmsmodel as tm
from ..sx import explore, PathAbort
from . import c04, kstep

A, B = c04.A, c04.B
KINDS = ['full', 'full2', 'same', 'nodata', 'unlisted']

MANIFEST = dict(
    category='model_checking',
    text="Bounded exploration decided by the solver of the reader's inheritance state machine: all sequences of 2 segments and a "
         "large family of 3-segment sequences over 2 channels, each object independently encoded as full index (same or new "
         "length) / matches-previous / no-data / unlisted, with and without kTocNewObjList and kTocMetaData, 1-2 chunks, property "
         "updates; TdmsFile.read and TdmsFile.open (index cache) are compared with the oracle's logical content, the reader's "
         "per-segment object state (has_data, length, type of every earlier segment: frame condition against retroactive "
         "aliasing) with the oracle's, and the three forbidden encodings must raise.  Inductive step: the real "
         "_read_segment_metadata/_update_object_metadata run on ONE solver-chosen segment from an ARBITRARY reader state satisfying a "
         "stated representation invariant (most-recent objects per path undefined/defined with solver-variable counts, any previous "
         "object list, solver-variable totals): the resulting state equals the format's rules, nothing earlier changes, and the "
         "invariant holds again - which, with the base case, covers histories of any length over <= 2 (thorough 3) paths.",
    note="Trusted: z3 (here mostly enumerating structure), sx engine, the oracle's independent statement of the TDMS inheritance "
         "rules in vf/tdmsmodel.py. Bounds: 3 segments, 2 channels (+1 in the order-sensitivity family).",
    technique="bounded symbolic execution (solver-driven case split over encodings) of the real code + oracle comparison; replay gate",
)

META = dict(
    level='model_checking',
    functions=['tdms_segment.TdmsSegment.read_segment_objects', 'tdms_segment.TdmsSegment._update_existing_object',
               'tdms_segment.TdmsSegment._reuse_previous_object', 'tdms_segment.TdmsSegment._reuse_previous_segment_metadata',
               'tdms_segment.SegmentIndexCache.get_index', 'tdms_segment.ObjectListKey', 'reader.TdmsReader._update_object_metadata',
               'reader._update_object_data_type', 'reader.TdmsReader._build_index', 'reader.TdmsReader._read_segment_metadata',
               'reader.TdmsReader._read_lead_in', 'tdms_segment.TdmsSegmentObject.read_raw_data_index', 'tdms_segment.TdmsSegment._calculate_chunks'],
    bounds=dict(quick='2-segment sequences also with the second segment big-endian; inductive step: 2 paths x 4 pre-states each x any previous list x 5 header kinds x list orders x 0-2 chunks, counts/'
                      'totals/offsets unbounded solver integers (thorough: also 3 paths x 4 header kinds, for a third of the pre-state combinations); all 2-segment sequences; 3-segment sequences whose middle segment is one of 14 configurations; 2 channels '
                      '(int32, int16), 1-2 values, 1-2 chunks; plus the object-order family (same objects listed in a different '
                      'order in a new-object-list segment, 3 channels)',
                thorough='all 3-segment sequences'),
    outside=['more than 3 segments in the file-level family (the inductive step covers any number for the metadata state)', 'more than 3 channels', 'DAQmx objects', 'interleaved layout (C01)'],
    stubs=c04.META['stubs'],
    assumptions=['inheritance rules as stated in the TDMS file format description (oracle)'],
    buckets=dict(all=['valid-encoding', 'forbidden-rejected', 'no-metadata-segment', 'carried-object-list', 'same-after-nodata',
                      'restated-identical-index', 'lazy-index-cache', 'order-family'] + kstep.BUCKETS),
    replays_per_signature=3,
    validate_samples=10,
)


def seg_configs(first):
    """all (meta, newobj, kind_a, kind_b, nchunks) for one segment"""
    out = []
    for meta in ((True,) if first else (True, False)):
        for newobj in ((True,) if first else (True, False)):
            if not meta and not newobj:
                continue
            for ka, kb in itertools.product(KINDS, KINDS):
                if not meta and (ka, kb) != ('unlisted', 'unlisted'):
                    continue
                for nc in (1, 2):
                    out.append((meta, newobj if meta else True, ka, kb, nc))
    return out


MIDDLE_QUICK = [(True, False, 'unlisted', 'unlisted', 1), (False, True, 'unlisted', 'unlisted', 2), (True, False, 'nodata', 'unlisted', 1),
                (True, False, 'unlisted', 'nodata', 2), (True, True, 'full', 'unlisted', 1), (True, True, 'unlisted', 'full2', 1),
                (True, False, 'same', 'nodata', 1), (True, False, 'full2', 'same', 2), (True, True, 'nodata', 'nodata', 1),
                (True, False, 'nodata', 'nodata', 1), (True, True, 'same', 'same', 1), (True, False, 'full', 'full', 1),
                (True, True, 'nodata', 'full', 2), (True, False, 'full2', 'nodata', 1)]


def build_shape(cfgs):
    """cfgs: list of (meta, newobj, kind_a, kind_b, nchunks) -> shape; tracks the last declared length per channel"""
    shape = []
    last = {A: None, B: None}
    for si, (meta, newobj, ka, kb, nc) in enumerate(cfgs):
        objs = []
        for path, kind, tcode in ((A, ka, 3), (B, kb, 2)):
            if kind == 'unlisted':
                continue
            props = [['p', 3, si + 1]] if path == A else []
            if kind == 'full':
                nv = last[path] if last[path] is not None else 1
                objs.append([path, 'full', tcode, nv, props])
                last[path] = nv
            elif kind == 'full2':
                nv = 2 if last[path] in (None, 1) else 1
                objs.append([path, 'full', tcode, nv, props])
                last[path] = nv
            elif kind == 'same':
                objs.append([path, 'same', tcode, 0, props])
            else:
                objs.append([path, 'nodata', tcode, 0, props])
        shape.append(s1.seg(objs, nc, meta=meta, newobj=newobj))
    return shape


def tasks(tier, seed):
    ts = []
    first = seg_configs(True)
    rest = seg_configs(False)
    for i0 in range(len(first)):
        ts.append(dict(kind='seq', S=2, c0=i0))
    mids = range(len(rest)) if tier == 'thorough' else None
    if tier == 'thorough':
        for i0 in range(len(first)):
            for i1 in range(len(rest)):
                ts.append(dict(kind='seq', S=3, c0=i0, c1=i1))
    else:
        for i0 in range(len(first)):
            for m in range(len(MIDDLE_QUICK)):
                ts.append(dict(kind='seq', S=3, c0=i0, mid=m))
    ts.append(dict(kind='order'))
    ts.append(dict(kind='typechange'))
    return kstep.tasks(tier) + ts


def segment_state_mismatch(tf, enc):
    """frame condition: the reader's per-segment object state equals the oracle's for EVERY segment"""
    segs = tf._reader._segments if tf._reader is not None else None
    if segs is None:
        return None
    if len(segs) != len(enc.segs):
        return dict(what='segment-count', got=len(segs), expected=len(enc.segs))
    for i, (rs, es) in enumerate(zip(segs, enc.segs)):
        got_list = [o.path for o in rs.ordered_objects]
        if got_list != es['active']:
            return dict(what='segment-object-list', segment=i, got=got_list, expected=es['active'])
        exp_idx = {p: (t, nv) for (p, t, nv) in es['objs']}
        for o in rs.ordered_objects:
            if bool(o.has_data) != es['has_data'][o.path]:
                return dict(what='segment-has-data', segment=i, object=o.path, got=bool(o.has_data), expected=es['has_data'][o.path])
            if o.has_data:
                t, nv = exp_idx[o.path]
                if o.number_values != nv or o.data_type.enum_value != t:
                    return dict(what='segment-index', segment=i, object=o.path, got=[o.number_values, o.data_type.enum_value], expected=[nv, t])
        if rs.num_chunks != (es['nchunks'] if es['chunk_size'] else 0):
            return dict(what='segment-chunks', segment=i, got=rs.num_chunks, expected=es['nchunks'])
    return None


def check_file(shape, fail, note=None):
    """shared by the symbolic run and the replay: returns after calling fail(what, **detail) on the first deviation"""
    from nptdms import TdmsFile
    try:
        enc = s1.build(shape, allow_forbidden=True)
    except tm.Invalid:
        return 'invalid'
    if enc.forbidden:
        for opener in (TdmsFile.read, TdmsFile.open):
            try:
                tf = opener(io.BytesIO(enc.data))
            except Exception:
                continue
            try:
                fail('forbidden-encoding-accepted', reason=enc.forbidden, mode=opener.__name__)
            finally:
                tf.close()
        if note:
            note('forbidden-rejected')
        return 'forbidden'
    for opener in (TdmsFile.read, TdmsFile.open):
        mode = opener.__name__
        try:
            tf = opener(io.BytesIO(enc.data))
        except Exception as e:
            fail('exception', exc=type(e).__name__, msg=str(e)[:100], mode=mode)
            return
        try:
            try:
                mism = s1.compare_file(tf, enc)
            except Exception as e:
                fail('exception', exc=type(e).__name__, msg=str(e)[:100], mode=mode)
                return
            if mism:
                fail('mismatch:' + mism[0]['what'], detail=mism[0], mode=mode)
            st = segment_state_mismatch(tf, enc)
            if st:
                fail('state:' + st['what'], detail=st, mode=mode)
        finally:
            tf.close()
    return 'ok'


def _shape_of(task, choose):
    first, rest = seg_configs(True), seg_configs(False)
    if task['kind'] == 'order':
        # same objects, different order, in a new-object-list segment (index cache keyed by the ordered list)
        C = "/'g'/'c'"
        perm = list(itertools.permutations([A, B, C]))[choose('perm', 6)]
        nvs = {A: 1, B: 2, C: 1}
        tc = {A: 3, B: 2, C: 4}
        s0 = s1.seg([[p, 'full', tc[p], nvs[p]] for p in (A, B, C)], 1 + choose('nc0', 2))
        s1_ = s1.seg([[p, 'full', tc[p], nvs[p]] for p in perm], 1 + choose('nc1', 2), newobj=True)
        s2 = s1.seg([[p, 'same' if choose('same', 2) else 'full', tc[p], nvs[p]] for p in (A, B, C)], 1, newobj=True)
        return [s0, s1_, s2]
    if task['kind'] == 'typechange':
        s0 = s1.seg([[A, 'full', 3, 1], [B, 'full', 2, 1]], 1)
        kind = ['unlisted', 'nodata', 'nometa'][choose('mid', 3)]
        mids = {'unlisted': s1.seg([[B, 'full', 2, 1]], 1), 'nodata': s1.seg([[A, 'nodata', 3, 0]], 1, newobj=False),
                'nometa': s1.seg([], 1, meta=False)}
        s2 = s1.seg([[A, 'full', [4, 9, 3][choose('newtype', 3)], 1]], 1, newobj=bool(choose('newobj', 2)))
        return [s0, mids[kind], s2]
    cfgs = [first[task['c0']]]
    if task['S'] == 2:
        cfgs.append(rest[choose('c1', len(rest))])
        sh = build_shape(cfgs)
        if choose('big1', 2):
            sh[1]['big'] = True         # the inheriting segment has the other byte order than the segment that defined the index
        return sh
    else:
        if 'mid' in task:
            cfgs.append(MIDDLE_QUICK[task['mid']])
        else:
            cfgs.append(rest[task['c1']])
        cfgs.append(rest[choose('c2', len(rest))])
    return build_shape(cfgs)


def run_task(task):
    if task['kind'] == 'step':
        return kstep.run_task(task)

    def fn(ctx):
        shape = _shape_of(task, ctx.choice)
        ctx.info['shape'] = str([(s.get('meta', True), s.get('newobj', True), [(o[0][-2], o[1], o[3]) for o in s['objs']], s['nchunks']) for s in shape])

        def fail(what, **kw):
            ctx.fail(what, **kw)
        ctx.obligations += 1
        r = check_file(shape, fail, ctx.note)
        if r == 'invalid':
            raise PathAbort()
        ctx.discharged += 1
        if r == 'ok':
            ctx.note('valid-encoding')
            ctx.note('lazy-index-cache')
            if any(not s.get('meta', True) for s in shape):
                ctx.note('no-metadata-segment')
            if any(s.get('meta', True) and not s.get('newobj', True) for s in shape[1:]):
                ctx.note('carried-object-list')
            kinds = [[o[1] for o in s['objs'] if o[0] == A] for s in shape]
            flat = [k[0] if k else 'unlisted' for k in kinds]
            for a, b in zip(flat, flat[1:]):
                if a == 'nodata' and b == 'same':
                    ctx.note('same-after-nodata')
            if task['kind'] == 'seq' and any(o[1] == 'full' for s in shape[1:] for o in s['objs']):
                ctx.note('restated-identical-index')
            if task['kind'] == 'order':
                ctx.note('order-family')

    st = explore(fn, max_paths=20000, time_budget=1200)
    st.pop('wall_s', None)
    return st


def signature(c):
    if c['task']['kind'] == 'step':
        return kstep.signature('C02', c)
    what = c.get('what', '')
    if what == 'exception':
        what = 'exception:%s' % c.get('exc')
    return 'C02/%s/%s/%s' % (c['task']['kind'], what, c.get('mode', ''))


def replay(art):
    task, inp = art['task'], art['inputs']
    if task['kind'] == 'step':
        return kstep.replay('C02', art)
    shape = _shape_of(task, lambda name, n: inp.get(name, 0))
    out = []

    class Stop(Exception):
        pass

    def fail(what, **kw):
        out.append(dict(sig=signature(dict(task=task, what=what, **{k: v for k, v in kw.items() if k in ('exc', 'mode')})), **kw))
        raise Stop()
    try:
        check_file(shape, fail)
    except Stop:
        return out[0]
    return None

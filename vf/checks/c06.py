"""C06 -- a file cut short by a crash reads as a prefix of the complete file.

S1 harness with a symbolic file length: the complete file (independent encoder) is wrapped in a
stream whose size is the symbolic crash point `cut` in [4, size]; eager and lazy reads of every
channel on the same path; also the variant whose last lead-in carries the 0xFFFF... marker."""
import z3
from .. import s1, tdmsmodel as tm
from ..sx import explore, ex, SymInt
from ..stream import CutFile
from . import c04

MANIFEST = dict(
    category='model_checking',
    text="Bounded symbolic execution of the real reader on a stream whose length is a solver variable (the crash point): for each "
         "file of a stated family every byte offset from 4 to the file length is covered by the paths explored; on each path the "
         "eager and the lazy read of every channel are compared with the oracle (prefix of the complete values, at least all values "
         "of segments wholly before the cut, len == values returned, lazy == eager, file_status flag) by SMT queries over all cuts "
         "of the path.  Kernel lemma: the real _compute_final_chunk_lengths on symbolic remainders.",
    note="Trusted: z3, sx engine, CutFile (bytes with symbolic length: read/readinto clip at the cut), encoder/oracle. 'Inside a "
         "segment's raw data' is read as data_position <= cut < segment end. With the length-unknown marker the flag is expected "
         "whenever the marked segment's metadata is complete. File shapes are a bounded family.",
    technique="bounded symbolic execution of the real code with a symbolic file length + SMT (z3, QF_LIA) per path; replay gate",
)

META = dict(
    level='model_checking',
    functions=['reader.TdmsReader._read_lead_in', 'reader.TdmsReader.read_metadata', 'reader._number_of_segment_values',
               'tdms_segment.TdmsSegment._calculate_chunks', 'tdms_segment.TdmsSegment._compute_final_chunk_lengths',
               'tdms_segment.ContiguousDataReader._read_data_chunk', 'tdms_segment.ContiguousDataReader._read_channel_data_chunk',
               'tdms_segment.InterleavedDataReader._read_interleaved_chunks', 'base_segment.fromfile',
               'base_segment.read_interleaved_segment_bytes', 'tdms.TdmsFile.file_status', 'tdms.TdmsFile._read_data',
               'tdms.TdmsChannel._read_channel_data'],
    bounds=dict(quick='non-truncated files of the C04 family (2-3 segments, 1-3 values x 1-3 chunks, contiguous/interleaved, '
                      'int32/int64/float64/timestamp/string, channel present/absent/no-data) with explicit offsets and with the '
                      'length-unknown marker in the last lead-in; cut = every offset in [4, size] (symbolic)',
                thorough='the thorough C04 family'),
    outside=['DAQmx (C11)', 'files outside the family', 'strings in multi-chunk segments with the length-unknown marker'],
    stubs=['CutFile: concrete bytes, symbolic length'] + c04.META['stubs'],
    assumptions=c04.META['assumptions'],
    buckets=dict(all=['cut-in-leadin', 'cut-in-metadata', 'cut-in-data', 'cut-at-segment-end', 'complete-file',
                      'partial-chunk-values-kept', 'cut-in-metadata-of-segment-without-raw-data']),
    replays_per_signature=4,
    validate_samples=12,
)

CHANNELS = [('g', 'a', c04.A), ('g', 'b', c04.B)]


def family(tier, seed):
    fam = []
    for sh in c04.shape_family(tier, seed):
        if any(s.get('trunc') for s in sh):
            continue
        fam.append(sh)
    if tier != 'thorough':
        fam = [sh for i, sh in enumerate(fam) if i % 2 == 0 or len(sh) == 1 or any(s.get('inter') for s in sh)]
    # segments that hold no raw data (properties only / zero values / no-data objects), in the middle and at the end
    A, B = c04.A, c04.B
    P1, P2 = ['n', 3, 77], ['txt', 0x20, 'zwölf°']
    d0 = s1.seg([[A, 'full', 3, 2], [B, 'full', 2, 1]], 2)
    fam.append([d0, s1.seg([['/', 'nodata', 0, 0, [P1]], ["/'g'", 'nodata', 0, 0, [P2]]], 1, raw_flag=False)])
    fam.append([d0, s1.seg([[A, 'nodata', 3, 0, [P2, P1]]], 1, newobj=False)])
    fam.append([d0, s1.seg([[A, 'full', 3, 0, [P1]], [B, 'full', 2, 0]], 1)])
    fam.append([d0, s1.seg([["/'g'", 'nodata', 0, 0, [P1, P2]]], 1, newobj=False, raw_flag=False),
                s1.seg([[A, 'full', 3, 3]], 2)])
    fam.append([s1.seg([['/', 'nodata', 0, 0, [P2]]], 1, raw_flag=False), d0, s1.seg([[B, 'nodata', 2, 0, [P1]]], 1)])
    # raw-data-only segments (no metadata block) re-using the previous object list, with the same / another chunk count as before
    fam.append([d0, s1.seg([], 2, meta=False)])
    fam.append([d0, s1.seg([], 3, meta=False)])
    fam.append([s1.seg([[A, 'full', 3, 3], [B, 'full', 4, 1]], 1), s1.seg([], 1, meta=False), s1.seg([], 2, meta=False)])
    fam.append([s1.seg([[A, 'full', 3, 2], [B, 'full', 3, 2]], 2, inter=True), s1.seg([], 2, meta=False, inter=True)])
    return fam


def tasks(tier, seed):
    ts = []
    for i, sh in enumerate(family(tier, seed)):
        if any(s.get('unknown_len') for s in sh):
            ts.append(dict(shape=sh, marker=True, sid=i))
            continue
        ts.append(dict(shape=sh, marker=False, sid=i))
        enc = s1.build(sh)
        last = enc.segs[-1]
        strings_multi = any(t == 0x20 for (_, t, _) in last['objs']) and last['nchunks'] > 1
        if not strings_multi and last['chunk_size'] > 0:
            sh2 = [dict(s) for s in sh]
            sh2[-1]['unknown_len'] = True
            ts.append(dict(shape=sh2, marker=True, sid=i))
    return ts


def _read_all(tf, lazy):
    """{path: (canonical values or None if the channel does not exist, len(channel))}"""
    out = {}
    for g, c, path in CHANNELS:
        if g in tf and c in tf[g]:
            ch = tf[g][c]
            arr = ch[:]
            out[path] = (arr, len(ch), ch.data_type)
        else:
            out[path] = (None, 0, None)
    return out


def _canon(arr, tcode):
    if arr is None:
        return []
    if tcode is None:
        return list(arr)
    return s1.got_canon(arr, tcode)


def expectations(enc):
    exp = {}
    for g, c, path in CHANNELS:
        ch = enc.channels.get(path)
        if ch is None:
            exp[path] = ([], None, {})
        else:
            exp[path] = (s1.exp_canon(ch) if ch.tcode is not None else [], ch.tcode, ch.seg_counts)
    return exp


def check_cut(enc, exp, marker, cut, eager, lazy, status_flag, fail, prove, note, cut_is_symbolic=True):
    """The property for one path.  `cut` is a z3 Int term (or IntVal); eager/lazy dicts path->(canon list, len)."""
    segs = enc.segs
    for g, c, path in CHANNELS:
        full, tcode, seg_counts = exp[path]
        (ge, le), (gl, ll) = eager[path], lazy[path]
        if ge != full[:len(ge)]:
            fail('eager-not-prefix', channel=path, got=[s1.show(x) for x in ge], full=[s1.show(x) for x in full])
        if gl != ge:
            fail('lazy-differs-from-eager', channel=path, lazy=[s1.show(x) for x in gl], eager=[s1.show(x) for x in ge])
        if le != len(ge) or ll != len(gl):
            fail('len-mismatch', channel=path, len_eager=le, len_lazy=ll, values=len(ge))
        # at least every value of the segments lying wholly before the cut
        lower = z3.IntVal(0)
        acc = 0
        for s in segs:
            acc += seg_counts.get(s['index'], 0)
            lower = z3.If(cut >= s['end'], z3.IntVal(acc), lower)
        prove(z3.IntVal(len(ge)) >= lower, dict(channel=path, got=len(ge)), 'values-of-complete-segments-lost')
        if len(ge) > sum(seg_counts.get(s['index'], 0) for s in segs if not z3.is_false(z3.simplify(cut >= s['end']))
                         and False):
            pass
    # file_status.incomplete_final_segment <=> cut inside a segment's raw data
    inside = z3.Or(*[z3.And(cut >= s['data_start'], cut < s['end']) for s in segs if s['end'] > s['data_start']]) \
        if any(s['end'] > s['data_start'] for s in segs) else z3.BoolVal(False)
    if marker:
        last = segs[-1]
        inside = z3.Or(inside, cut >= last['data_start'])
    prove(z3.BoolVal(bool(status_flag)) == inside, dict(flag=bool(status_flag)), 'incomplete-flag-wrong')


def run_task(task):
    enc = s1.build(task['shape'])
    exp = expectations(enc)
    size = len(enc.data)
    marker = task['marker']
    segs = enc.segs

    def fn(ctx):
        from nptdms import TdmsFile
        cut = ctx.int('cut', 4, size)
        res = {}
        flags = []
        for mode in ('eager', 'lazy'):
            f = CutFile(enc.data, cut)
            try:
                tf = TdmsFile.read(f) if mode == 'eager' else TdmsFile.open(f)
                try:
                    r = _read_all(tf, mode == 'lazy')
                    flags.append(bool(tf.file_status.incomplete_final_segment))
                finally:
                    tf.close()
            except Exception as e:
                ctx.fail('exception', mode=mode, exc=type(e).__name__, msg=str(e)[:100])
            res[mode] = {p: (_canon(a, exp[p][1] if t is not None else None), n) for p, (a, n, t) in r.items()}
        if flags[0] != flags[1]:
            ctx.fail('flag-differs-between-modes', eager=flags[0], lazy=flags[1])
        check_cut(enc, exp, marker, ex(cut), res['eager'], res['lazy'], flags[0], ctx.fail,
                  lambda p, d, w: ctx.prove(p, d, what=w), ctx.note)
        # coverage buckets
        c = ex(cut)
        for s in segs:
            if ctx.check(z3.And(c > s['start'], c < s['start'] + 28)):
                ctx.note('cut-in-leadin')
            if ctx.check(z3.And(c >= s['start'] + 28, c < s['data_start'])):
                ctx.note('cut-in-metadata')
                if s['end'] == s['data_start']:
                    ctx.note('cut-in-metadata-of-segment-without-raw-data')
            if s['end'] > s['data_start'] and ctx.check(z3.And(c > s['data_start'], c < s['end'])):
                ctx.note('cut-in-data')
                got = len(res['eager'][c04.A][0]) + len(res['eager'][c04.B][0])
                whole = sum(exp[p][2].get(x['index'], 0) for p in (c04.A, c04.B) for x in segs if x['index'] < s['index'])
                if got > whole and s['nchunks'] >= 1:
                    ctx.note('partial-chunk-values-kept')
            if ctx.check(c == s['end']):
                ctx.note('cut-at-segment-end')
        if ctx.check(c == size):
            ctx.note('complete-file')

    st = explore(fn, max_paths=20000, time_budget=600)
    st.pop('wall_s', None)
    return st


def signature(c):
    task = c['task']
    kind = c.get('what', '')
    if kind == 'exception':
        kind = 'exception:%s:%s' % (c.get('exc'), c.get('mode', ''))
    feats = []
    if task.get('marker'):
        feats.append('marker')
    if any(s.get('inter') for s in task['shape']):
        feats.append('interleaved')
    enc = s1.build(task['shape'])
    if any(t == 0x20 for s in enc.segs for (_, t, _) in s['objs']):
        feats.append('string')
    return 'C06/%s/%s' % (kind, '+'.join(feats) or 'plain')


def replay(art):
    import io
    from nptdms import TdmsFile
    task, inp = art['task'], art['inputs']
    enc = s1.build(task['shape'])
    exp = expectations(enc)
    cut = inp['cut']
    data = enc.data[:cut]
    res, flags = {}, []
    for mode in ('eager', 'lazy'):
        try:
            tf = TdmsFile.read(io.BytesIO(data)) if mode == 'eager' else TdmsFile.open(io.BytesIO(data))
            try:
                r = _read_all(tf, mode == 'lazy')
                flags.append(bool(tf.file_status.incomplete_final_segment))
            finally:
                tf.close()
        except Exception as e:
            return dict(sig=signature(dict(task=task, what='exception', exc=type(e).__name__, mode=mode)), cut=cut,
                        exception=repr(e)[:200])
        res[mode] = {p: (_canon(a, exp[p][1] if t is not None else None), n) for p, (a, n, t) in r.items()}
    if flags[0] != flags[1]:
        return dict(sig=signature(dict(task=task, what='flag-differs-between-modes')), cut=cut, flags=flags)
    out = []

    class Fail(Exception):
        pass

    def fail(what, **kw):
        out.append(dict(sig=signature(dict(task=task, what=what)), cut=cut, **kw))
        raise Fail()

    def prove(p, d, w):
        if not z3.is_true(z3.simplify(p)):
            out.append(dict(sig=signature(dict(task=task, what=w)), cut=cut, **d))
            raise Fail()

    try:
        check_cut(enc, exp, task['marker'], z3.IntVal(cut), res['eager'], res['lazy'], flags[0], fail, prove, None)
    except Fail:
        return out[0]
    return None

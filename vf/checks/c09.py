"""C09 -- a matching index file is transparent.

S1 on real files in a scratch directory (index discovery is by path): each file of a family is
read without index, with the independent encoder's index and with TdmsWriter's index (writer
produced files), eagerly, lazily (symbolic windows) and metadata-only; the .tdms_index alone gives
the same objects / properties / types / lengths and refuses data reads."""
import io
import os
import shutil
import tempfile
import z3
from .. import s1, tdmsmodel as tm
from ..sx import explore, ex, PathAbort
from . import c02, c04

A, B = c04.A, c04.B

MANIFEST = dict(
    category='model_checking',
    text="Bounded symbolic execution of the real reader on real files with and without a .tdms_index beside them: for each file of a "
         "family (metadata-less segments with and without padding, carried object lists, truncated and length-unknown last segments, "
         "big-endian segments, strings, many segments, writer-produced files with the writer's own index) TdmsFile.read / open / "
         "read_metadata with index are compared with the oracle (hence with the no-index read), lazy windows with symbolic unbounded "
         "offset/length, and the index alone must give the same objects, properties, types and lengths and raise on data reads.",
    note="Trusted: z3, sx engine, encoder/oracle (data and index bytes), the OS file layer (real files under a temporary directory). "
         "The solver decides the window dimension; file shapes are enumerated. An index-stream kernel with symbolic segment sizes is "
         "not built (see DESIGN.md).",
    technique="bounded symbolic execution of the real code on files with/without index + SMT (z3, QF_LIA) per path; replay gate",
)

META = dict(
    level='model_checking',
    functions=['reader.TdmsReader.__init__', 'reader.TdmsReader.read_metadata', 'reader.TdmsReader._read_lead_in',
               'reader.TdmsReader._verify_segment_start', 'reader.TdmsReader.is_index_file_only', 'reader._get_file_size',
               'tdms.TdmsFile.__init__', 'tdms.TdmsChannel._read_channel_data', 'writer.TdmsWriter.write_segment (index twin)'],
    bounds=dict(quick='about 60 files (C02 sequence sample with padding variants, C04 family sample, special shapes) x {no index, '
                      'encoder index, writer index where applicable} x {read, open+window, read_metadata, index-only}',
                thorough='about 300 files'),
    outside=['index files that do not match the data file beyond a wrong tag (C20)', 'DAQmx'],
    stubs=c04.META['stubs'],
    assumptions=['index file = lead-ins and metadata of the data file with TDSh tags (independent encoder)'],
    buckets=dict(all=['with-index-read', 'with-index-window', 'index-only', 'index-only-refuses-data', 'no-metadata-segment',
                      'padded-no-metadata-segment', 'incomplete-last-segment', 'writer-index', 'cut-data-file-with-full-index']),
    replays_per_signature=3,
    validate_samples=8,
)


def family(tier):
    fam = []
    first, rest = c02.seg_configs(True), c02.seg_configs(False)
    step = 7 if tier == 'quick' else 2
    k = 0
    for i0 in range(0, len(first), 5):
        for i1 in range(0, len(rest), step):
            for i2 in (3, 40, 77):
                k += 1
                if tier == 'quick' and k % 4:
                    continue
                cfgs = [first[i0], rest[(i1 + i0) % len(rest)], rest[(i2 + i1) % len(rest)]]
                sh = c02.build_shape(cfgs)
                for s in sh:
                    if not s.get('meta', True):
                        s['pad'] = [0, 3, 8][k % 3]
                fam.append(sh)
    for sh in c04.shape_family('quick', 0)[::6 if tier == 'quick' else 2]:
        fam.append(sh)
    from .. import shapes
    fam += shapes.random_family(31, 20 if tier == 'quick' else 150, need_a=False, allow_trunc=True)
    # explicit specials: padded metadata-less middle segment followed by more segments; marker; big endian; strings
    base = [A, 'full', 3, 2]
    fam.append([s1.seg([base, [B, 'full', 2, 1]], 2), s1.seg([], 1, meta=False, pad=5), s1.seg([[A, 'full', 3, 1]], 2, newobj=False),
                s1.seg([], 2, meta=False, pad=0)])
    fam.append([s1.seg([base, [B, 'full', 0x20, 2]], 1, big=True), s1.seg([[B, 'same', 0x20, 0]], 2, newobj=False, big=True)])
    fam.append([s1.seg([base], 1), s1.seg([base], 3, unknown_len=True)])
    fam.append([s1.seg([base, [B, 'full', 10, 1]], 2), s1.seg([base, [B, 'full', 10, 1]], 2, trunc=7)])
    out = []
    for sh in fam:
        try:
            enc = s1.build(sh)
        except tm.Invalid:
            continue
        out.append(sh)
    return out


def cut_family(tier):
    base = [A, 'full', 3, 2, [['p', 3, 1]]]
    fam = [[s1.seg([base, [B, 'full', 2, 1]], 2), s1.seg([[A, 'full', 3, 1, [['p', 3, 2]]], ["/'h'/'late'", 'full', 4, 1, [['q', 0x20, 'x']]]], 1)],
           [s1.seg([base], 1), s1.seg([], 2, meta=False, pad=4), s1.seg([[B, 'full', 10, 1, [['r', 10, 2.5]]]], 2, newobj=False)],
           [s1.seg([base, [B, 'full', 0x20, 2]], 1, big=True), s1.seg([["/'g'", 'nodata', 0, 0, [['gp', 3, 7]]], [A, 'same', 3, 0]], 1)]]
    if tier == 'thorough':
        fam += c04.shape_family('quick', 0)[::9]
    return fam


def tasks(tier, seed):
    ts = []
    for i, sh in enumerate(family(tier)):
        ts.append(dict(kind='enc', shape=sh, sid=i))
    for i, sh in enumerate(cut_family(tier)):
        ts.append(dict(kind='cut', shape=sh, sid=i))
    for i in range(4 if tier == 'quick' else 12):
        ts.append(dict(kind='writer', prog=i))
    return ts


class Scratch:
    def __enter__(self):
        self.d = tempfile.mkdtemp(prefix='vf_c09_')
        return self

    def __exit__(self, *a):
        shutil.rmtree(self.d, ignore_errors=True)

    def write(self, name, data, index=None):
        p = os.path.join(self.d, name)
        with open(p, 'wb') as f:
            f.write(data)
        if index is not None:
            with open(p + '_index', 'wb') as f:
                f.write(index)
        return p


def _trunc_expected(enc):
    """expected channel values honouring a truncated last chunk (re-use of the C03 rule)"""
    from . import c03
    return {p: c03._trunc_expected(None, enc, p, False) for p in enc.channels}


def check_files(enc, sc, fail, geti=None, note=None, index_bytes=None, label='encoder-index'):
    """One file, all configurations.  geti(name, lo, hi) supplies window arguments (symbolic or concrete)."""
    from nptdms import TdmsFile
    expv = _trunc_expected(enc)
    idx = enc.index if index_bytes is None else index_bytes
    marker = enc.segs[-1]['declared_end'] != enc.segs[-1]['end'] and not any(s['trunc'] for s in enc.segs)
    marker = marker or getattr(enc, 'has_marker', False)
    paths = dict(plain=sc.write('plain.tdms', enc.data), indexed=sc.write('indexed.tdms', enc.data, idx))
    for conf, p in paths.items():
        for api in ('read', 'open', 'read_metadata'):
            try:
                tf = getattr(TdmsFile, api)(p)
            except Exception as e:
                fail('exception', conf=conf, api=api, exc=type(e).__name__, msg=str(e)[:100])
                return
            try:
                mism = s1.compare_file(tf, enc, expected_values=expv, check_data=(api != 'read_metadata'))
                if mism:
                    fail('mismatch:' + mism[0]['what'], conf=conf, api=api, detail=mism[0])
                if api == 'read_metadata':
                    for g in tf.groups():
                        for c in g.channels():
                            path = tm.make_path(g.name, c.name)
                            if len(c) != len(expv[path]):
                                fail('length', conf=conf, api=api, channel=path, got=len(c), expected=len(expv[path]))
                if api == 'open' and geti is not None and A in enc.channels and 'g' in tf and 'a' in tf['g']:
                    ch = tf['g']['a']
                    full = expv[A]
                    o, l = geti('offset', 0, None), geti('length', 0, None)
                    got = s1.got_canon(ch.read_data(o, l), enc.channels[A].tcode) if enc.channels[A].tcode is not None else []
                    yield ('window', conf, full, got, o, l)
            finally:
                tf.close()
        if note:
            note('with-index-read' if conf == 'indexed' else 'with-index-read')
    # the index alone
    ip = paths['indexed'] + '_index'
    only = os.path.join(sc.d, 'alone.tdms_index')
    shutil.copy(ip, only)
    for api in ('read', 'open', 'read_metadata'):
        try:
            tf = getattr(TdmsFile, api)(only)
        except Exception as e:
            fail('exception', conf='index-only', api=api, exc=type(e).__name__, msg=str(e)[:100])
            return
        try:
            mism = s1.compare_file(tf, enc, check_data=False)
            if mism:
                fail('mismatch:' + mism[0]['what'], conf='index-only', api=api, detail=mism[0])
            for g in tf.groups():
                for c in g.channels():
                    path = tm.make_path(g.name, c.name)
                    exp_len = len(s1.exp_canon(enc.channels[path])) if enc.channels[path].tcode is not None else 0
                    if not any(s['trunc'] for s in enc.segs) and not marker and len(c) != exp_len:
                        fail('length', conf='index-only', api=api, channel=path, got=len(c), expected=exp_len)
                    et = enc.channels[path].tcode
                    gt = None if c.data_type is None else c.data_type.enum_value
                    if gt != et:
                        fail('data-type', conf='index-only', api=api, channel=path, got=gt, expected=et)
                    if exp_len > 0:
                        try:
                            c.read_data()
                        except Exception:
                            if note:
                                note('index-only-refuses-data')
                        else:
                            fail('index-only-data-read-returned', channel=path, api=api)
        finally:
            tf.close()
    if note:
        note('index-only')


def _index_formula(full, v, i, n):
    import z3
    from ..sx import ex
    ie = ex(i)
    pos = z3.If(ie < 0, ie + n, ie)
    return z3.And(*[z3.Implies(pos == k, z3.BoolVal(full[k] == v)) for k in range(n)])


def _writer_program(i):
    """writer-produced file + the writer's own index (concrete programs)"""
    import numpy as np
    from nptdms.writer import TdmsWriter, ChannelObject, GroupObject, RootObject
    data, index = io.BytesIO(), io.BytesIO()
    with TdmsWriter(data, index_file=index, version=4713 if i % 2 else 4712) as w:
        w.write_segment([RootObject({'r': i}), GroupObject('g', {'p': 1.5}),
                         ChannelObject('g', 'a', np.arange(3 + i, dtype='int32')), ChannelObject('g', 'b', np.array(['x', 'yz' * (i + 1)], dtype=object))])
        w.write_segment([ChannelObject('g', 'a', np.arange(2, dtype='int32') + 10)])
        if i % 3:
            w.write_segment([ChannelObject('h', 'c', np.array([1.5, 2.5 + i])), ChannelObject('g', 'b', np.array(['q'], dtype=object))])
    return data.getvalue(), index.getvalue()


def _check_writer(i, sc, fail, note=None, geti=None, prove=None):
    from nptdms import TdmsFile
    data, index = _writer_program(i)
    plain = sc.write('w_plain.tdms', data)
    indexed = sc.write('w_indexed.tdms', data, index)
    alone = sc.write('w_alone.tdms_index', index)

    def summary(tf, with_data):
        out = []
        out.append(('/', sorted((k, repr(v)) for k, v in tf.properties.items())))
        for g in tf.groups():
            out.append((g.name, sorted((k, repr(v)) for k, v in g.properties.items())))
            for c in g.channels():
                out.append((c.path, len(c), str(c.dtype), sorted((k, repr(v)) for k, v in c.properties.items()),
                            list(map(str, c[:])) if with_data else None))
        return out
    ref = summary(TdmsFile.read(plain), True)
    for api in ('read', 'open'):
        tf = getattr(TdmsFile, api)(indexed)
        try:
            got = summary(tf, True)
        finally:
            tf.close()
        if got != ref:
            fail('writer-index-differs', api=api, got=str(got)[:300], expected=str(ref)[:300])
    # lazily opened with the writer's index: a window and an integer index of channel g/a (requests are solver variables)
    if geti is not None:
        with TdmsFile.read(plain) as tfp:
            full = [int(v) for v in tfp['g']['a'][:]]
        n = len(full)
        for which in ('indexed', 'plain'):
            tf = TdmsFile.open(indexed if which == 'indexed' else plain)
            try:
                ch = tf['g']['a']
                o, l = geti('offset', 0, None), geti('length', 0, None)
                try:
                    got = [int(v) for v in ch.read_data(o, l)]
                except PathAbort:
                    raise
                except Exception as e:
                    fail('writer-index-window-exception', conf=which, exc=type(e).__name__, msg=str(e)[:100])
                prove(s1.window_formula(full, got, o, l, n), dict(conf=which, got=got), 'writer-index-window')
                i_ = geti('index', -n, n - 1)
                try:
                    v = int(ch[i_])
                except PathAbort:
                    raise
                except Exception as e:
                    fail('writer-index-index-exception', conf=which, exc=type(e).__name__, msg=str(e)[:100])
                prove(s1.index_formula(full, v, i_, n) if hasattr(s1, 'index_formula') else _index_formula(full, v, i_, n),
                      dict(conf=which, got=v), 'writer-index-index')
            finally:
                tf.close()
    refm = [x[:4] + (None,) if len(x) == 5 else x for x in ref]
    for p in (indexed, alone):
        tf = TdmsFile.read_metadata(p)
        try:
            got = summary(tf, False)
        finally:
            tf.close()
        if got != refm:
            fail('writer-index-metadata-differs', path=os.path.basename(p), got=str(got)[:300], expected=str(refm)[:300])
    if note:
        note('writer-index')


def _summary(tf):
    out = [('/', sorted((k, s1.prop_canon_got(v)) for k, v in tf.properties.items()))]
    for g in tf.groups():
        out.append((g.name, sorted((k, s1.prop_canon_got(v)) for k, v in g.properties.items())))
        for c in g.channels():
            tc = None if c.data_type is None else c.data_type.enum_value
            vals = s1.got_canon(c[:], tc) if tc is not None else []
            out.append((c.path, len(c), tc, sorted((k, s1.prop_canon_got(v)) for k, v in c.properties.items()), [s1.show(x) for x in vals]))
    return out


def _run_cut(task):
    """The DATA file is cut at a symbolic offset while a complete matching index sits beside it (virtual file system of C20):
    reading with the index must give exactly what reading the same cut file without index gives."""
    import builtins
    from nptdms import TdmsFile
    from ..stream import Builder, SymStream
    from .. import dispatch
    from .c20 import Ledger
    enc = s1.build(task['shape'])
    P = '/vfs/cut.tdms'

    def fn(ctx):
        cut = ctx.int('cut', 4, len(enc.data))
        res = {}
        for conf in ('plain', 'indexed'):
            for api in ('read', 'open'):
                led = Ledger()

                def mk_data():
                    b = Builder()
                    b.raw(enc.data)
                    return SymStream(b.regions, size=cut)

                def mk_index():
                    b = Builder()
                    b.raw(enc.index)
                    return SymStream(b.regions)
                led.vfs[P] = mk_data
                if conf == 'indexed':
                    led.vfs[P + '_index'] = mk_index
                dispatch.OVERRIDES[builtins.open] = led.open
                dispatch.OVERRIDES[os.path.isfile] = led.isfile
                try:
                    try:
                        tf = getattr(TdmsFile, api)(P)
                    except PathAbort:
                        raise
                    except Exception as e:
                        res[(conf, api)] = 'raised %s' % type(e).__name__
                        continue
                    try:
                        res[(conf, api)] = _summary(tf)
                    except PathAbort:
                        raise
                    except Exception as e:
                        res[(conf, api)] = 'read raised %s' % type(e).__name__
                    finally:
                        tf.close()
                finally:
                    dispatch.OVERRIDES.pop(builtins.open, None)
                    dispatch.OVERRIDES.pop(os.path.isfile, None)
        ctx.obligations += 1
        for api in ('read', 'open'):
            if res[('plain', api)] != res[('indexed', api)]:
                ctx.fail('cut-data-file-differs-with-index', api=api, plain=str(res[('plain', api)])[:300], indexed=str(res[('indexed', api)])[:300])
        ctx.discharged += 1
        ctx.note('cut-data-file-with-full-index')

    st = explore(fn, max_paths=5000, time_budget=900)
    st.pop('wall_s', None)
    return st


def run_task(task):
    if task['kind'] == 'cut':
        return _run_cut(task)
    if task['kind'] == 'writer':
        def fnw(ctx):
            with Scratch() as sc:
                ctx.obligations += 1
                _check_writer(task['prog'], sc, lambda what, **kw: ctx.fail(what, **kw), ctx.note, ctx.int,
                              lambda p, d, w: ctx.prove(p, d, what=w))
                ctx.discharged += 1
        st = explore(fnw, max_paths=20000, time_budget=600)
        st.pop('wall_s', None)
        return st
    enc = s1.build(task['shape'])

    def fn(ctx):
        with Scratch() as sc:
            ctx.obligations += 1
            n = len(enc.channels[A].raw) if A in enc.channels else 0
            for item in check_files(enc, sc, lambda what, **kw: ctx.fail(what, **kw), ctx.int, ctx.note):
                _, conf, full, got, o, l = item
                ctx.prove(s1.window_formula(full, got, o, l, len(full)), dict(conf=conf, got=[s1.show(x) for x in got]),
                          what='window-with-index' if conf == 'indexed' else 'window')
                ctx.note('with-index-window')
            ctx.discharged += 1
            if any(not s.get('meta', True) for s in task['shape']):
                ctx.note('no-metadata-segment')
            if any(not s.get('meta', True) and s.get('pad') for s in task['shape']):
                ctx.note('padded-no-metadata-segment')
            if any(s.get('trunc') or s.get('unknown_len') for s in task['shape']):
                ctx.note('incomplete-last-segment')

    st = explore(fn, max_paths=5000, time_budget=900)
    st.pop('wall_s', None)
    return st


def signature(c):
    what = c.get('what', '')
    if what == 'exception':
        what = 'exception:%s' % c.get('exc')
    feat = []
    sh = c['task'].get('shape') or []
    if any(s.get('unknown_len') for s in sh):
        feat.append('length-unknown-marker')
    return 'C09/%s/%s/%s/%s' % (c['task']['kind'], c.get('conf', ''), what, '+'.join(feat) or 'plain')


def replay(art):
    task, inp = art['task'], art['inputs']
    out = []

    class Stop(Exception):
        pass

    def fail(what, **kw):
        out.append(dict(sig=signature(dict(task=task, what=what, conf=kw.get('conf', ''), exc=kw.get('exc'))), **kw))
        raise Stop()
    if task['kind'] == 'cut':
        from nptdms import TdmsFile
        enc = s1.build(task['shape'])
        cut = inp.get('cut', len(enc.data))
        try:
            with Scratch() as sc:
                plain = sc.write('p.tdms', enc.data[:cut])
                indexed = sc.write('i.tdms', enc.data[:cut], enc.index)
                for api in ('read', 'open'):
                    r = []
                    for p in (plain, indexed):
                        try:
                            tf = getattr(TdmsFile, api)(p)
                            try:
                                r.append(_summary(tf))
                            finally:
                                tf.close()
                        except Exception as e:
                            r.append('raised %s' % type(e).__name__)
                    if r[0] != r[1]:
                        fail('cut-data-file-differs-with-index', conf='', api=api, cut=cut, plain=str(r[0])[:300], indexed=str(r[1])[:300])
        except Stop:
            return out[0]
        return None
    try:
        with Scratch() as sc:
            if task['kind'] == 'writer':
                def _prove(p, d, w):
                    import z3
                    if not z3.is_true(z3.simplify(p)):
                        fail(w, **d)
                _check_writer(task['prog'], sc, fail, None, lambda name, lo, hi: inp.get(name, lo if lo is not None else 0), _prove)
            else:
                enc = s1.build(task['shape'])
                for item in check_files(enc, sc, fail, lambda name, lo, hi: inp.get(name, 0)):
                    _, conf, full, got, o, l = item
                    if got != full[o:o + l]:
                        fail('window-with-index' if conf == 'indexed' else 'window', conf=conf, request=[o, l],
                             got=[s1.show(x) for x in got])
    except Stop:
        return out[0]
    return None

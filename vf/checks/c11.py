"""C11 -- DAQmx raw data is decoded at the declared buffer, stride, offset and type.

S1: DAQmx files from an independent encoder (random buffer bytes); eager scaler data, lazy
windows (symbolic offset/length), chunk streams and symbolic crash points are compared with the
oracle's (buffer, row*width + offset, size, type, endianness, bit) extraction."""
import io
import itertools
import z3
from .. import s1, daqmxmodel as dm
from ..sx import explore, ex, PathAbort
from ..stream import CutFile

MANIFEST = dict(
    category='model_checking',
    text="Bounded symbolic execution of the real DAQmx metadata parser and data reader on files of a stated family (1-2 channels, "
         "1-2 scalers each, 1-2 raw buffers of widths with padding, 1-3 rows, 1-2 chunks, 10 scaler types, digital-line scalers, "
         "both byte orders, two segments): the eager per-scaler arrays, lazy windows with symbolic unbounded offset/length, channel "
         "chunk streams, and - with the file length a symbolic crash point - the truncated reads (complete rows only, prefix of the "
         "full data, lazy == eager) are compared with an independent oracle that extracts each value from (buffer, row*width+offset).",
    note="Trusted: z3, sx engine, vf/daqmxmodel.py (encoder + oracle), CutFile. Buffer bytes are pseudo-random, not all values. "
         "Channels sharing a buffer have equal lengths in this family.",
    technique="bounded symbolic execution of the real code + SMT (z3, QF_LIA) per path; replay gate",
)

META = dict(
    level='model_checking',
    functions=['daqmx.DaqmxSegmentObject.read_raw_data_index', 'daqmx.DaqMxMetadata.__init__', 'daqmx.DaqMxScaler.__init__',
               'daqmx.DigitalLineScaler.__init__', 'daqmx.DigitalLineScaler.postprocess_data', 'daqmx.get_buffer_dimensions',
               'daqmx.get_daqmx_chunk_size', 'daqmx.DaqmxDataReader._read_data_chunk', 'daqmx.get_daqmx_final_chunk_lengths',
               'channel_data.DaqmxDataReceiver', 'reader._trim_channel_chunk', 'reader.TdmsReader.read_raw_data_for_channel'],
    bounds=dict(quick='24 file shapes (see shapes()), windows unbounded, cut = every offset of each file (symbolic)',
                thorough='48 shapes'),
    outside=['scaled DAQmx data beyond one Linear scale over a scaler (C13)', 'channels of unequal length sharing a buffer',
             'more than 2 buffers', 'one channel whose scalers live in different raw buffers under truncation (the reader itself doubts that such files are valid)'],
    stubs=['CutFile: bytes with symbolic length', 'np.searchsorted/int/isinstance models as in C04'],
    assumptions=['DAQmx raw-data layout as described in the TDMS format notes (independent encoder)'],
    buckets=dict(all=['eager-scalers', 'lazy-window', 'chunk-stream', 'cut-complete-rows', 'two-buffers', 'digital-line',
                      'big-endian']),
    replays_per_signature=3,
    validate_samples=10,
)

P1, P2 = "/'g'/'ai0'", "/'g'/'ai1'"


def shapes(tier):
    S = dm.Scaler
    out = []

    def seg(chans, widths, nchunks=1, big=False):
        return dict(chans=chans, widths=widths, nchunks=nchunks, big=big)
    # one buffer, two channels, padding
    for big in (False, True):
        for t0, t1 in ((3, 5), (2, 8), (0, 7), (9, 1), (4, 6)):
            s0, s1_ = dm.DTYPES[t0][1], dm.DTYPES[t1][1]
            w = s0 + s1_ + 1
            out.append([seg([dm.Chan(P1, [S(0, t0, 0, 0)], 3), dm.Chan(P2, [S(0, t1, 0, s0 + 1)], 3)], [w], 2, big),
                        seg([dm.Chan(P1, [S(0, t0, 0, 0)], 2), dm.Chan(P2, [S(0, t1, 0, s0 + 1)], 2)], [w], 1, big)])
    # two buffers of different widths and lengths, one channel each; later buffer narrower / wider
    for big in (False, True):
        for w0, w1, n0, n1 in ((8, 2, 2, 3), (2, 8, 3, 2), (4, 4, 2, 2), (6, 3, 3, 1)):
            out.append([seg([dm.Chan(P1, [S(0, 3, 0, min(1, w0 - 2))], n0), dm.Chan(P2, [S(0, 3, 1, w1 - 2)], n1)], [w0, w1], 2, big)])
    # two scalers per channel (same buffer, different offsets), scale ids not in offset order
    out.append([seg([dm.Chan(P1, [S(1, 3, 0, 4), S(0, 5, 0, 0)], 2), dm.Chan(P2, [S(0, 2, 0, 6)], 2)], [8], 2, False)])
    out.append([seg([dm.Chan(P1, [S(1, 3, 0, 4), S(0, 5, 0, 0)], 2), dm.Chan(P2, [S(0, 2, 0, 6)], 2)], [8], 2, True)])
    # digital lines: bits of a byte / of a 2-byte word
    out.append([seg([dm.Chan(P1, [S(0, 0, 0, 3, True)], 3), dm.Chan(P2, [S(0, 0, 0, 12, True)], 3)], [2], 2, False)])
    out.append([seg([dm.Chan(P1, [S(0, 2, 0, 9, True)], 3), dm.Chan(P2, [S(0, 0, 0, 17, True)], 3)], [4], 1, True)])
    # digital lines in two different buffers whose bits live at the same byte offset (and same type)
    out.append([seg([dm.Chan(P1, [S(0, 0, 0, 9, True)], 3), dm.Chan(P2, [S(0, 0, 1, 10, True)], 3)], [2, 3], 2, False)])
    out.append([seg([dm.Chan(P1, [S(0, 2, 0, 3, True), S(1, 2, 0, 5, True)], 2), dm.Chan(P2, [S(0, 2, 1, 3, True)], 2)], [2, 4], 2, True)])
    # a later segment re-writes the DAQmx index with the same types, widths and counts but the scalers at other offsets / bits
    for big in (False, True):
        out.append([seg([dm.Chan(P1, [S(0, 3, 0, 0)], 2), dm.Chan(P2, [S(0, 3, 0, 3)], 2)], [6], 2, big),
                    seg([dm.Chan(P1, [S(0, 3, 0, 3)], 2), dm.Chan(P2, [S(0, 3, 0, 0)], 2)], [6], 1, big),
                    seg([dm.Chan(P1, [S(0, 3, 0, 1)], 2), dm.Chan(P2, [S(0, 3, 0, 4)], 2)], [6], 2, big)])
    out.append([seg([dm.Chan(P1, [S(0, 0, 0, 3, True)], 3), dm.Chan(P2, [S(0, 0, 0, 12, True)], 3)], [2], 1, False),
                seg([dm.Chan(P1, [S(0, 0, 0, 12, True)], 3), dm.Chan(P2, [S(0, 0, 0, 5, True)], 3)], [2], 2, False)])
    out.append([seg([dm.Chan(P1, [S(0, 3, 0, 0)], 2), dm.Chan(P2, [S(0, 3, 1, 0)], 2)], [2, 4], 1, False),
                seg([dm.Chan(P1, [S(0, 3, 1, 2)], 2), dm.Chan(P2, [S(0, 3, 0, 0)], 2)], [2, 4], 2, False)])
    # metadata lists a channel of raw buffer 1 before the channel of raw buffer 0; the buffers have different row counts and widths
    for big in (False, True):
        for w0, w1, n0, n1 in ((8, 2, 2, 3), (2, 6, 3, 1), (4, 4, 1, 3)):
            out.append([seg([dm.Chan(P1, [S(0, 3, 1, w1 - 2)], n1), dm.Chan(P2, [S(0, 3, 0, min(1, w0 - 2))], n0)], [w0, w1], 2, big)])
    if tier == 'thorough':
        for big in (False, True):
            for t0 in range(10):
                s0 = dm.DTYPES[t0][1]
                out.append([seg([dm.Chan(P1, [S(0, t0, 0, 1)], 2), dm.Chan(P2, [S(0, 3, 1, 0), S(1, t0, 1, 2)], 2)], [s0 + 2, s0 + 3], 2, big)])
    return out


def _to_json(shape):
    return [dict(chans=[[c.path, [[s.scale_id, s.tcode, s.buffer, s.offset, s.digital] for s in c.scalers], c.nv] for c in sg['chans']],
                 widths=sg['widths'], nchunks=sg['nchunks'], big=sg['big']) for sg in shape]


def _from_json(js):
    return [dict(chans=[dm.Chan(c[0], [dm.Scaler(*s) for s in c[1]], c[2]) for c in sg['chans']], widths=sg['widths'],
                 nchunks=sg['nchunks'], big=sg['big']) for sg in js]


def tasks(tier, seed):
    ts = []
    for i, sh in enumerate(shapes(tier)):
        js = _to_json(sh)
        ts.append(dict(kind='eager', shape=js, sid=i))
        ts.append(dict(kind='window', shape=js, sid=i))
        ts.append(dict(kind='cut', shape=js, sid=i))
    return ts


def _canon(arr):
    import numpy as np
    a = np.ascontiguousarray(arr)
    if a.dtype.byteorder == '>':
        a = a.astype(a.dtype.newbyteorder('<'))
    size = a.dtype.itemsize
    b = a.tobytes()
    return [b[i * size:(i + 1) * size] for i in range(len(a))]


def _scalers(d):
    return {int(k): _canon(v) for k, v in d.items()}


def _exp(info, path):
    return {k: list(v) for k, v in info['channels'].get(path, {}).items()}


def _hex(d):
    return {k: [x.hex() for x in v] for k, v in d.items()}


def _read_everything(tf):
    out = {}
    for path, name in ((P1, 'ai0'), (P2, 'ai1')):
        if 'g' in tf and name in tf['g']:
            ch = tf['g'][name]
            d = ch.read_data(scaled=False)
            out[path] = (_scalers(d) if isinstance(d, dict) else {}, len(ch))
        else:
            out[path] = ({}, 0)
    return out


def run_task(task):
    from nptdms import TdmsFile
    shape = _from_json(task['shape'])
    data, info = dm.encode(shape)
    kind = task['kind']

    def fn(ctx):
        if any(sg['big'] for sg in shape):
            ctx.note('big-endian')
        if any(len(sg['widths']) > 1 for sg in shape):
            ctx.note('two-buffers')
        if any(s.digital for sg in shape for c in sg['chans'] for s in c.scalers):
            ctx.note('digital-line')
        if kind == 'eager':
            tf = TdmsFile.read(io.BytesIO(data))
            for path, name in ((P1, 'ai0'), (P2, 'ai1')):
                ch = tf['g'][name]
                exp = _exp(info, path)
                ctx.obligations += 1
                got = _scalers(ch.raw_scaler_data)
                if got != exp:
                    ctx.fail('scaler-data', channel=path, got=_hex(got), expected=_hex(exp))
                n = len(next(iter(exp.values()))) if exp else 0
                if len(ch) != n:
                    ctx.fail('length', channel=path, got=len(ch), expected=n)
                dts = {int(k): str(v.dtype.newbyteorder('=')) for k, v in ch.raw_scaler_data.items()}
                if dts != info['dtypes'][path]:
                    ctx.fail('scaler-dtype', channel=path, got=dts, expected=info['dtypes'][path])
                if len(exp) == 1 and _canon(ch.raw_data) != list(exp.values())[0]:
                    ctx.fail('raw_data', channel=path)
                ctx.discharged += 1
            # chunk streams of a lazily opened file
            with TdmsFile.open(io.BytesIO(data)) as tl:
                for path, name in ((P1, 'ai0'), (P2, 'ai1')):
                    ch = tl['g'][name]
                    cat = {}
                    run = 0
                    for c in ch.data_chunks():
                        if c.offset != run:
                            ctx.fail('chunk-offset', channel=path, got=c.offset, expected=run)
                        sd = _scalers(c._raw_data.scaler_data)
                        for k, v in sd.items():
                            cat.setdefault(k, []).extend(v)
                        run += len(c)
                    ctx.obligations += 1
                    if cat != _exp(info, path):
                        ctx.fail('chunk-stream', channel=path, got=_hex(cat), expected=_hex(_exp(info, path)))
                    ctx.discharged += 1
            ctx.note('eager-scalers')
            ctx.note('chunk-stream')
        elif kind == 'window':
            which = ctx.choice('channel', 2)
            path, name = ((P1, 'ai0'), (P2, 'ai1'))[which]
            exp = _exp(info, path)
            n = len(next(iter(exp.values()))) if exp else 0
            offset = ctx.int('offset', 0)
            haslen = ctx.choice('haslen', 2)
            length = ctx.int('length', 0) if haslen else None
            with TdmsFile.open(io.BytesIO(data)) as tl:
                ch = tl['g'][name]
                try:
                    d = ch.read_data(offset, length, scaled=False)
                except Exception as e:
                    ctx.fail('exception', exc=type(e).__name__, msg=str(e)[:100])
                got = _scalers(d) if isinstance(d, dict) else {}
            for k, full in exp.items():
                g = got.get(k)
                if g is None:
                    ctx.fail('scaler-missing', scaler=k)
                ctx.prove(s1.window_formula(full, g, offset, length, n), dict(scaler=k, got=[x.hex() for x in g]), what='window')
            ctx.note('lazy-window')
        else:
            cut = ctx.int('cut', 4, len(data))
            res = {}
            for mode in ('eager', 'lazy'):
                f = CutFile(data, cut)
                try:
                    tf = TdmsFile.read(f) if mode == 'eager' else TdmsFile.open(f)
                    try:
                        res[mode] = _read_everything(tf)
                    finally:
                        tf.close()
                except PathAbort:
                    raise
                except Exception as e:
                    ctx.fail('exception', mode=mode, exc=type(e).__name__, msg=str(e)[:100])
            for path in (P1, P2):
                (ge, le), (gl, ll) = res['eager'][path], res['lazy'][path]
                exp = _exp(info, path)
                if ge != gl or le != ll:
                    ctx.fail('lazy-differs-from-eager', channel=path, eager=_hex(ge), lazy=_hex(gl))
                lens = set(len(v) for v in ge.values())
                if len(lens) > 1:
                    ctx.fail('scalers-of-unequal-length', channel=path, got=_hex(ge))
                m = lens.pop() if lens else 0
                if le != m:
                    ctx.fail('len-mismatch', channel=path, len_channel=le, values=m)
                for k, v in ge.items():
                    if v != exp.get(k, [])[:len(v)]:
                        ctx.fail('not-prefix', channel=path, scaler=k, got=[x.hex() for x in v], full=[x.hex() for x in exp.get(k, [])])
                # complete rows only, and at least everything of the segments (and chunks) wholly before the cut
                lower = z3.IntVal(0)
                acc = 0
                c = ex(cut)
                for si, sg in enumerate(info['segs']):
                    nv = [ch.nv for ch in shape[si]['chans'] if ch.path == path]
                    nv = nv[0] if nv else 0
                    for ci in range(sg['nchunks']):
                        acc += nv
                        lower = z3.If(c >= sg['data_start'] + (ci + 1) * sg['chunk_size'], z3.IntVal(acc), lower)
                ctx.prove(z3.IntVal(m) >= lower, dict(channel=path, got=m), what='complete-chunks-lost')
            ctx.note('cut-complete-rows')

    st = explore(fn, max_paths=20000, time_budget=900)
    st.pop('wall_s', None)
    return st


def signature(c):
    what = c.get('what', '')
    if what == 'exception':
        what = 'exception:%s' % c.get('exc')
    return 'C11/%s/%s' % (c['task']['kind'], what)


def replay(art):
    from nptdms import TdmsFile
    task, inp = art['task'], art['inputs']
    shape = _from_json(task['shape'])
    data, info = dm.encode(shape)
    kind = task['kind']
    try:
        if kind == 'eager':
            tf = TdmsFile.read(io.BytesIO(data))
            for path, name in ((P1, 'ai0'), (P2, 'ai1')):
                ch = tf['g'][name]
                exp = _exp(info, path)
                got = _scalers(ch.raw_scaler_data)
                if got != exp:
                    return dict(sig=signature(dict(task=task, what='scaler-data')), channel=path, got=_hex(got), expected=_hex(exp))
                n = len(next(iter(exp.values()))) if exp else 0
                if len(ch) != n:
                    return dict(sig=signature(dict(task=task, what='length')), channel=path, got=len(ch), expected=n)
            with TdmsFile.open(io.BytesIO(data)) as tl:
                for path, name in ((P1, 'ai0'), (P2, 'ai1')):
                    cat, run = {}, 0
                    for c in tl['g'][name].data_chunks():
                        if c.offset != run:
                            return dict(sig=signature(dict(task=task, what='chunk-offset')), channel=path)
                        for k, v in _scalers(c._raw_data.scaler_data).items():
                            cat.setdefault(k, []).extend(v)
                        run += len(c)
                    if cat != _exp(info, path):
                        return dict(sig=signature(dict(task=task, what='chunk-stream')), channel=path, got=_hex(cat))
            return None
        if kind == 'window':
            path, name = ((P1, 'ai0'), (P2, 'ai1'))[inp.get('channel', 0)]
            exp = _exp(info, path)
            off = inp['offset']
            ln = inp.get('length') if inp.get('haslen', 0) else None
            with TdmsFile.open(io.BytesIO(data)) as tl:
                d = tl['g'][name].read_data(off, ln, scaled=False)
            got = _scalers(d) if isinstance(d, dict) else {}
            for k, full in exp.items():
                e = full[off:] if ln is None else full[off:off + ln]
                if got.get(k) != e:
                    return dict(sig=signature(dict(task=task, what='window')), scaler=k, request=[off, ln],
                                got=[x.hex() for x in got.get(k, [])], expected=[x.hex() for x in e])
            return None
        cut = inp['cut']
        res = {}
        for mode in ('eager', 'lazy'):
            f = io.BytesIO(data[:cut])
            tf = TdmsFile.read(f) if mode == 'eager' else TdmsFile.open(f)
            try:
                res[mode] = _read_everything(tf)
            finally:
                tf.close()
        for path in (P1, P2):
            (ge, le), (gl, ll) = res['eager'][path], res['lazy'][path]
            exp = _exp(info, path)
            if ge != gl or le != ll:
                return dict(sig=signature(dict(task=task, what='lazy-differs-from-eager')), cut=cut, channel=path, eager=_hex(ge), lazy=_hex(gl))
            lens = set(len(v) for v in ge.values())
            if len(lens) > 1:
                return dict(sig=signature(dict(task=task, what='scalers-of-unequal-length')), cut=cut, channel=path)
            m = lens.pop() if lens else 0
            if le != m:
                return dict(sig=signature(dict(task=task, what='len-mismatch')), cut=cut, channel=path, len_channel=le, values=m)
            for k, v in ge.items():
                if v != exp.get(k, [])[:len(v)]:
                    return dict(sig=signature(dict(task=task, what='not-prefix')), cut=cut, channel=path, scaler=k,
                                got=[x.hex() for x in v], full=[x.hex() for x in exp.get(k, [])])
            acc, lower = 0, 0
            for si, sg in enumerate(info['segs']):
                nv = [ch.nv for ch in shape[si]['chans'] if ch.path == path]
                nv = nv[0] if nv else 0
                for ci in range(sg['nchunks']):
                    acc += nv
                    if cut >= sg['data_start'] + (ci + 1) * sg['chunk_size']:
                        lower = acc
            if m < lower:
                return dict(sig=signature(dict(task=task, what='complete-chunks-lost')), cut=cut, channel=path, got=m, at_least=lower)
        return None
    except Exception as e:
        return dict(sig=signature(dict(task=task, what='exception', exc=type(e).__name__)), exception=repr(e)[:200])

"""C20 -- npTDMS closes the files it opened, only those, and fails loudly afterwards.

S4 on a model of open(): builtins.open / os.path.isfile are replaced (through the call dispatcher)
by a virtual file system whose handles are registered in a ledger.  File content is a well-formed
two-segment skeleton in which ONE numeric field is symbolic and unconstrained (so every stage at
which parsing can raise is a feasible path) or whose length is a symbolic cut; API sequences are
case-split by the solver."""
import builtins
import io
import os
import struct
import z3
from ..sx import explore, ex, SymInt, PathAbort, Inconclusive, Ctx
from ..stream import Builder, SymStream, SinkStream

P, PI = '/vfs/f.tdms', '/vfs/f.tdms_index'

MANIFEST = dict(
    category='model_checking',
    text="Bounded symbolic execution of TdmsFile.read / open / read_metadata / close / __exit__ and TdmsWriter's with-block on a "
         "model of open(): the file (and optional index file) content is a well-formed two-segment skeleton in which one numeric "
         "field at a time - tag, toc mask, version, either offset, object count, path length, raw-index header, type code, dimension, "
         "value count, property count, property type, string length - is a symbolic integer (unconstrained, except offsets/counts: 0..256 or the all-ones marker, type codes: all valid plus representative invalid ones), or whose length is a "
         "symbolic cut, so every stage at which parsing can fail is a feasible path; at every exit (return or raise) the ledger must "
         "show every handle the library opened as closed, caller-supplied streams not closed, reads after close raising, close() "
         "idempotent.  Sequences of open / read / close / read / close are case-split.",
    note="Decided on a MODEL of open()/os.path.isfile (virtual files, ledger of handles), not on kernel descriptors; replays of "
         "counterexamples use real files and /proc/self/fd. One symbolic field at a time (all at once is out of reach). Type-code "
         "fields range over all valid codes plus representative invalid ones.",
    technique="bounded symbolic execution of the real code on symbolic file content with an open() model + ledger assertions; replay gate",
)

META = dict(
    level='model_checking',
    functions=['reader.TdmsReader.__init__', 'reader.TdmsReader.close', 'reader.TdmsReader.read_metadata (finally)',
               'reader.TdmsReader._ensure_open', 'tdms.TdmsFile.__init__ (finally)', 'tdms.TdmsFile.close', 'tdms.TdmsFile.__exit__',
               'writer.TdmsWriter.open', 'writer.TdmsWriter.close', 'writer.TdmsWriter.__exit__'],
    bounds=dict(quick='skeleton of 2 segments x (one symbolic field out of 30, or a symbolic cut) x source in {path, path+matching index, '
                      'path+index with the symbolic field, caller stream, caller index stream} x API in {read, read_metadata, open-with, '
                      'open-close-close, open-read-close-read}; caller-owned io.RawIOBase and io.BufferedReader objects over the well-formed file x API, '
                      'checked again after the TdmsFile object is dropped and collected', thorough='same plus index-only and writer failures'),
    outside=['kernel descriptors (model of open)', 'several malformed fields at once', 'memmap'],
    stubs=['builtins.open / os.path.isfile inside nptdms: virtual file system with a handle ledger', 'SymStream / SinkStream handles'],
    assumptions=['open() returns a handle that stays open until close() is called on it'],
    buckets=dict(all=['parse-error-path', 'clean-path', 'caller-stream-left-open', 'read-after-close-raises', 'index-handle-closed',
                      'writer-closed']),
    replays_per_signature=3,
    validate_samples=6,
)

TYPE_CODES = [0, 1, 2, 3, 4, 5, 6, 7, 8, 9, 10, 11, 0x19, 0x1A, 0x1B, 0x20, 0x21, 0x44, 0x08000c, 0x10000d, 0xFFFFFFFF, 0x45, 77777]


class Skeleton:
    """two-segment file; every numeric field is recorded so that one of them can be made symbolic"""

    def __init__(self, index=False):
        self.fields = []          # (name, width, signed, value)
        self.parts = []           # ('raw', bytes) | ('field', idx)
        tag = b'TDSh' if index else b'TDSm'
        path_a, path_g = b"/'g'/'a'", b"/'g'"
        for si in range(2):
            md = []
            self._field('tag%d' % si, 4, False, int.from_bytes(tag, 'little'))
            self._field('toc%d' % si, 4, True, 2 | 4 | 8)
            self._field('version%d' % si, 4, True, 4713)
            nso_i = self._field('nso%d' % si, 8, False, 0)
            rdo_i = self._field('rdo%d' % si, 8, False, 0)
            m0 = self.size()
            self._field('nobj%d' % si, 4, False, 2 if si == 0 else 1)
            self._field('pathlen%d' % si, 4, False, len(path_a))
            self._raw(path_a)
            self._field('idxhdr%d' % si, 4, False, 20)
            self._field('type%d' % si, 4, False, 3)
            self._field('dim%d' % si, 4, False, 1)
            self._field('nvalues%d' % si, 8, False, 2)
            self._field('nprops%d' % si, 4, False, 1)
            self._field('pnamelen%d' % si, 4, False, 1)
            self._raw(b'p')
            self._field('ptype%d' % si, 4, False, 0x20)
            self._field('pstrlen%d' % si, 4, False, 2)
            self._raw(b'ab')
            if si == 0:
                self._field('pathlen_g', 4, False, len(path_g))
                self._raw(path_g)
                self._field('idxhdr_g', 4, False, 0xFFFFFFFF)
                self._field('nprops_g', 4, False, 0)
            meta_len = self.size() - m0
            data = b'' if index else struct.pack('<4l', 1 + si, 2 + si, 3 + si, 4 + si)
            self.fields[rdo_i] = self.fields[rdo_i][:3] + (meta_len,)
            self.fields[nso_i] = self.fields[nso_i][:3] + (meta_len + 16,)
            self._raw(data)

    def _raw(self, b):
        self.parts.append(('raw', bytes(b)))

    def _field(self, name, width, signed, value):
        self.fields.append((name, width, signed, value))
        self.parts.append(('field', len(self.fields) - 1))
        return len(self.fields) - 1

    def size(self):
        n = 0
        for kind, x in self.parts:
            n += len(x) if kind == 'raw' else self.fields[x][1]
        return n

    def regions(self, sym=None, symval=None):
        b = Builder()
        for kind, x in self.parts:
            if kind == 'raw':
                b.raw(x)
            else:
                name, width, signed, value = self.fields[x]
                if sym is not None and x == sym:
                    v = symval
                else:
                    v = value % (2 ** (8 * width))
                b.field(v, width, '<', name)
        return b.regions

    def bytes(self, override=None):
        out = bytearray()
        for kind, x in self.parts:
            if kind == 'raw':
                out += x
            else:
                name, width, signed, value = self.fields[x]
                if override is not None and x == override[0]:
                    value = override[1]
                out += int(value % (2 ** (8 * width))).to_bytes(width, 'little')
        return bytes(out)


class Ledger:
    def __init__(self):
        self.vfs = {}
        self.handles = []

    def open(self, path, mode='r', *a, **k):
        path = str(path)
        if 'r' in mode:
            if path not in self.vfs:
                raise FileNotFoundError(path)
            h = self.vfs[path]()
        else:
            h = SinkStream()
            self.vfs[path] = lambda: SymStream(Builder().regions)
        h.name = path
        self.handles.append(h)
        return h

    def isfile(self, path):
        return str(path) in self.vfs

    def all_closed(self):
        return [h.name for h in self.handles if not h.closed]


SOURCES = ['path', 'path+index', 'path+bad-index', 'stream', 'index-stream', 'index-only-path']
CALLER_STREAMS = ['raw-stream', 'buffered-stream']       # caller-owned io.RawIOBase / io.BufferedReader objects (concrete bytes)


class _RawCaller(io.RawIOBase):
    """an unbuffered caller-owned stream (what open(path, 'rb', buffering=0) gives)"""

    def __init__(self, data):
        super().__init__()
        self._d, self._p = bytes(data), 0

    def readable(self):
        return True

    def seekable(self):
        return True

    def readinto(self, b):
        mv = memoryview(b).cast('B')
        chunk = self._d[self._p:self._p + len(mv)]
        mv[:len(chunk)] = chunk
        self._p += len(chunk)
        return len(chunk)

    def seek(self, off, whence=0):
        self._p = off if whence == 0 else (self._p + off if whence == 1 else len(self._d) + off)
        return self._p

    def tell(self):
        return self._p
APIS = ['read', 'read_metadata', 'open-with', 'open-close-close', 'open-read-close-read', 'open-no-close-then-close']


def tasks(tier, seed):
    ts = []
    sk = Skeleton()
    nf = len(sk.fields)
    for fi in list(range(nf)) + ['cut', 'none']:
        for src in SOURCES:
            if src in ('index-only-path',) and tier != 'thorough' and fi not in ('cut', 'none', 0, 3, 4):
                continue
            ts.append(dict(kind='reader', field=fi, source=src))
    for src in CALLER_STREAMS:
        ts.append(dict(kind='reader', field='none', source=src))
    ts.append(dict(kind='writer'))
    return ts


def _install(ledger):
    from .. import dispatch
    dispatch.OVERRIDES[builtins.open] = ledger.open
    dispatch.OVERRIDES[os.path.isfile] = ledger.isfile


def _uninstall():
    from .. import dispatch
    dispatch.OVERRIDES.pop(builtins.open, None)
    dispatch.OVERRIDES.pop(os.path.isfile, None)


def _symval(ctx, sk, fi):
    name, width, signed, value = sk.fields[fi]
    v = ctx.int('field_' + name, 0, 2 ** (8 * width) - 1)
    if name.startswith('type') or name.startswith('ptype'):
        ctx.add(z3.Or(*[v.e == c for c in TYPE_CODES]))
    if name.startswith('tag'):
        # the two valid tags, one wrong in each byte, or anything else
        pass
    if name.startswith('nso') or name.startswith('rdo') or name.startswith('nvalues'):
        # offsets / counts: every value up to 256 (well beyond the 100-byte file) or the 'length unknown' marker
        ctx.add(z3.Or(v.e <= 256, v.e == 2 ** (8 * width) - 1))
    return v


def run_task(task):
    from nptdms import TdmsFile
    from ..sx import SymInt as _SI
    _SI.QMAX = 64
    if task['kind'] == 'writer':
        return _run_writer(task)
    sk_data, sk_index = Skeleton(False), Skeleton(True)
    fi, src = task['field'], task['source']

    def fn(ctx):
        led = Ledger()
        _install(led)
        try:
            symbolic_in_index = src in ('path+bad-index', 'index-stream', 'index-only-path')
            sym = cut = None
            if fi == 'cut':
                size = (sk_index if symbolic_in_index else sk_data).size()
                cut = ctx.int('cut', 0, size)
            elif fi != 'none':
                sym = _symval(ctx, sk_index if symbolic_in_index else sk_data, fi)

            def mk_data():
                if not symbolic_in_index:
                    return SymStream(sk_data.regions(fi if sym is not None else None, sym), size=cut)
                return SymStream(sk_data.regions())

            def mk_index():
                if symbolic_in_index:
                    return SymStream(sk_index.regions(fi if sym is not None else None, sym), size=cut)
                return SymStream(sk_index.regions())
            caller = None
            if src == 'path':
                led.vfs[P] = mk_data
                arg = P
            elif src in ('path+index', 'path+bad-index'):
                led.vfs[P] = mk_data
                led.vfs[PI] = mk_index
                arg = P
            elif src == 'stream':
                caller = mk_data()
                arg = caller
            elif src == 'index-stream':
                caller = mk_index()
                arg = caller
            elif src in CALLER_STREAMS:
                caller = _RawCaller(sk_data.bytes(None))
                if src == 'buffered-stream':
                    caller = io.BufferedReader(caller)
                arg = caller
            else:
                led.vfs[PI] = mk_index
                arg = PI
            api = APIS[ctx.choice('api', len(APIS))]
            raised = None
            tf = None
            ctx.obligations += 1

            def must_be_closed(when):
                left = led.all_closed()
                if left:
                    ctx.fail('handle-left-open', when=when, api=api, handles=left, raised=raised)
                if caller is not None and caller.closed:
                    ctx.fail('caller-stream-closed', when=when, api=api)
            try:
                if api == 'read':
                    tf = TdmsFile.read(arg)
                elif api == 'read_metadata':
                    tf = TdmsFile.read_metadata(arg)
                else:
                    tf = TdmsFile.open(arg)
            except (PathAbort, Inconclusive):
                raise
            except Exception as e:
                raised = type(e).__name__
            if raised is not None or api in ('read', 'read_metadata'):
                must_be_closed('after %s %s' % (api, 'raised' if raised else 'returned'))
                ctx.note('parse-error-path' if raised else 'clean-path')
                if raised is None and api == 'read_metadata' and 'g' in tf and 'a' in tf['g'] and len(tf['g']['a']) > 0:
                    try:
                        tf['g']['a'].read_data()
                    except Exception:
                        ctx.note('read-after-close-raises')
                    else:
                        ctx.fail('read-after-close-returned', api=api)
            else:
                # lazily opened: index handle must already be closed, data handle still open
                idx_open = [h.name for h in led.handles if not h.closed and h.name.endswith('_index') and src != 'index-only-path']
                if idx_open and src.startswith('path'):
                    ctx.fail('index-handle-left-open-after-metadata', api=api)
                if src.startswith('path+'):
                    ctx.note('index-handle-closed')
                ch = tf['g']['a'] if ('g' in tf and 'a' in tf['g']) else None
                try:
                    if api == 'open-with':
                        with tf:
                            if ch is not None and len(ch) > 0:
                                try:
                                    ch[0]
                                except (PathAbort, Inconclusive):
                                    raise
                                except Exception as e:
                                    raised = type(e).__name__
                    elif api == 'open-close-close':
                        tf.close()
                        tf.close()
                    elif api == 'open-read-close-read':
                        live = []
                        if ch is not None and len(ch) > 0:
                            try:
                                ch.read_data(0, 1)
                                # iterators started BEFORE close and advanced once; continuing them after close must not deliver data
                                for mk in (ch.data_chunks, tf.data_chunks):
                                    it = mk()
                                    next(it)
                                    live.append(it)
                            except (PathAbort, Inconclusive):
                                raise
                            except Exception as e:
                                raised = type(e).__name__
                        tf.close()
                    else:
                        tf.close()
                except (PathAbort, Inconclusive):
                    raise
                except Exception as e:
                    ctx.fail('close-raised', api=api, exc=type(e).__name__)
                must_be_closed('after close (%s)' % api)
                if api == 'open-read-close-read' and raised is None:
                    for it in live:
                        try:
                            nxt = next(it)
                        except (PathAbort, Inconclusive):
                            raise
                        except StopIteration:
                            ctx.note('read-after-close-raises')
                        except Exception:
                            ctx.note('read-after-close-raises')
                        else:
                            ctx.fail('read-after-close-returned', api=api, op='iterator started before close')
                if ch is not None and len(ch) > 0:
                    for what, f in (('read_data', lambda: ch.read_data()), ('slice', lambda: ch[0:1]),
                                    ('iter', lambda: list(ch.data_chunks()))):      # (ch[i] may be served from the one-chunk cache)
                        try:
                            f()
                        except (PathAbort, Inconclusive):
                            raise
                        except Exception:
                            ctx.note('read-after-close-raises')
                        else:
                            ctx.fail('read-after-close-returned', api=api, op=what)
                ctx.note('clean-path' if raised is None else 'parse-error-path')
            if caller is not None:
                # ... and stays open when the TdmsFile object is dropped (no wrapper whose finaliser closes the caller's stream)
                import gc
                tf = ch = None
                gc.collect()
                if caller.closed:
                    ctx.fail('caller-stream-closed', when='after the TdmsFile object was dropped', api=api)
                ctx.note('caller-stream-left-open')
            ctx.discharged += 1
        finally:
            _uninstall()

    st = explore(fn, max_paths=60000, time_budget=420)
    st.pop('wall_s', None)
    return st


def _run_writer(task):
    import numpy as np
    from nptdms.writer import TdmsWriter, ChannelObject

    def fn(ctx):
        led = Ledger()
        _install(led)
        try:
            with_index = bool(ctx.choice('index', 2))
            fail_inside = ctx.choice('fail', 3)
            ctx.obligations += 1
            try:
                with TdmsWriter('/vfs/out.tdms', index_file=with_index) as w:
                    w.write_segment([ChannelObject('g', 'a', np.array([1, 2], dtype='int32'))])
                    if fail_inside == 1:
                        w.write_segment([ChannelObject('g', 'a', np.array([1]), {'bad': object()})])
                    elif fail_inside == 2:
                        raise KeyError('user error inside the with block')
            except (PathAbort, Inconclusive):
                raise
            except Exception:
                pass
            left = led.all_closed()
            if left:
                ctx.fail('writer-handle-left-open', handles=left, fail_inside=fail_inside)
            if len(led.handles) != (2 if with_index else 1):
                ctx.fail('writer-unexpected-handles', handles=[h.name for h in led.handles])
            ctx.discharged += 1
            ctx.note('writer-closed')
        finally:
            _uninstall()

    st = explore(fn, max_paths=100)
    st.pop('wall_s', None)
    return st


def signature(c):
    t = c['task']
    what = c.get('what', '')
    return 'C20/%s/%s/%s' % (t.get('source', t['kind']), what, c.get('api', ''))


# ----------------------------------------------------------------------------- replay with real files and /proc/self/fd
def _fds():
    out = {}
    for n in os.listdir('/proc/self/fd'):
        try:
            out[n] = os.readlink('/proc/self/fd/' + n)
        except OSError:
            pass
    return out


def replay(art):
    import tempfile
    import shutil
    from nptdms import TdmsFile
    task, inp = art['task'], art['inputs']
    if task['kind'] == 'writer':
        return _replay_writer(art)
    sk_data, sk_index = Skeleton(False), Skeleton(True)
    fi, src = task['field'], task['source']
    symbolic_in_index = src in ('path+bad-index', 'index-stream', 'index-only-path')
    ov = None
    if fi not in ('cut', 'none'):
        sk = sk_index if symbolic_in_index else sk_data
        ov = (fi, inp.get('field_' + sk.fields[fi][0], sk.fields[fi][3]))
    data = sk_data.bytes(None if symbolic_in_index else ov)
    index = sk_index.bytes(ov if symbolic_in_index else None)
    if fi == 'cut':
        if symbolic_in_index:
            index = index[:inp.get('cut', len(index))]
        else:
            data = data[:inp.get('cut', len(data))]
    api = APIS[inp.get('api', 0)]
    d = tempfile.mkdtemp(prefix='vf_c20_')
    try:
        p = os.path.join(d, 'f.tdms')
        caller = None
        if src in ('path', 'path+index', 'path+bad-index'):
            open(p, 'wb').write(data)
            if src != 'path':
                open(p + '_index', 'wb').write(index)
            arg = p
        elif src == 'stream':
            caller = io.BytesIO(data)
            arg = caller
        elif src == 'index-stream':
            caller = io.BytesIO(index)
            arg = caller
        elif src in CALLER_STREAMS:
            open(p, 'wb').write(data)
            caller = open(p, 'rb', buffering=0) if src == 'raw-stream' else open(p, 'rb')
            arg = caller
        else:
            open(p + '_index', 'wb').write(index)
            arg = p + '_index'
        before = _fds()
        raised = None
        tf = None

        def leaked():
            return [v for k, v in _fds().items() if k not in before and v.startswith(d)]
        lk_on_raise = []
        try:
            tf = {'read': TdmsFile.read, 'read_metadata': TdmsFile.read_metadata}.get(api, TdmsFile.open)(arg)
        except Exception as e:
            raised = type(e).__name__
            # look while the caller still holds the exception (afterwards CPython's reference counting would
            # collect the abandoned file object and hide the leak)
            lk_on_raise = leaked()
        if raised is not None or api in ('read', 'read_metadata'):
            lk = lk_on_raise if raised is not None else leaked()
            if lk:
                return dict(sig=signature(dict(task=task, what='handle-left-open', api=api)), leaked=lk, raised=raised)
            if caller is not None:
                import gc
                tf = None
                gc.collect()
                if caller.closed:
                    return dict(sig=signature(dict(task=task, what='caller-stream-closed', api=api)), raised=raised)
            return None
        ch = tf['g']['a'] if ('g' in tf and 'a' in tf['g']) else None
        try:
            if api == 'open-with':
                with tf:
                    if ch is not None and len(ch) > 0:
                        try:
                            ch[0]
                        except Exception:
                            pass
            elif api == 'open-close-close':
                tf.close()
                tf.close()
            elif api == 'open-read-close-read':
                live = []
                if ch is not None and len(ch) > 0:
                    try:
                        ch.read_data(0, 1)
                        for mk in (ch.data_chunks, tf.data_chunks):
                            it = mk()
                            next(it)
                            live.append(it)
                    except Exception:
                        live = None
                tf.close()
                for it in (live or []):
                    try:
                        next(it)
                    except StopIteration:
                        pass
                    except Exception:
                        pass
                    else:
                        return dict(sig=signature(dict(task=task, what='read-after-close-returned', api=api)), op='iterator started before close')
            else:
                tf.close()
        except Exception as e:
            return dict(sig=signature(dict(task=task, what='close-raised', api=api)), exception=repr(e)[:200])
        lk = leaked()
        if lk:
            return dict(sig=signature(dict(task=task, what='handle-left-open', api=api)), leaked=lk)
        if caller is not None and caller.closed:
            return dict(sig=signature(dict(task=task, what='caller-stream-closed', api=api)))
        if ch is not None and len(ch) > 0:
            for what, f in (('read_data', lambda: ch.read_data()), ('slice', lambda: ch[0:1])):
                try:
                    f()
                except Exception:
                    continue
                return dict(sig=signature(dict(task=task, what='read-after-close-returned', api=api)), op=what)
        if caller is not None:
            import gc
            tf = ch = None
            gc.collect()
            if caller.closed:
                return dict(sig=signature(dict(task=task, what='caller-stream-closed', api=api)), when='after the TdmsFile object was dropped')
        return None
    finally:
        try:
            if caller is not None and hasattr(caller, 'fileno'):
                caller.close()
        except Exception:
            pass
        shutil.rmtree(d, ignore_errors=True)


def _replay_writer(art):
    import tempfile
    import shutil
    import numpy as np
    from nptdms.writer import TdmsWriter, ChannelObject
    inp = art['inputs']
    d = tempfile.mkdtemp(prefix='vf_c20_')
    try:
        before = _fds()
        try:
            with TdmsWriter(os.path.join(d, 'out.tdms'), index_file=bool(inp.get('index', 0))) as w:
                w.write_segment([ChannelObject('g', 'a', np.array([1, 2], dtype='int32'))])
                if inp.get('fail', 0) == 1:
                    w.write_segment([ChannelObject('g', 'a', np.array([1]), {'bad': object()})])
                elif inp.get('fail', 0) == 2:
                    raise KeyError('x')
        except Exception:
            pass
        lk = [v for k, v in _fds().items() if k not in before and v.startswith(d)]
        if lk:
            return dict(sig='C20/writer/writer-handle-left-open/', leaked=lk)
        return None
    finally:
        shutil.rmtree(d, ignore_errors=True)

"""C04 -- windows, slices and indices mean what they mean on the full array.

S1 harness: concrete file from the independent encoder (shape chosen inside the bounds), the
request (offset/length, start/stop/step, index) symbolic; lazy requests unbounded."""
import io
import itertools
import random
import z3
from .. import s1, tdmsmodel as tm
from ..sx import explore, SymInt, ex, Violation, must_value

A, B = "/'g'/'a'", "/'g'/'b'"
STEP_BOUND = 4

from . import kdedup

MANIFEST = dict(
    category='model_checking',
    text="Bounded symbolic execution of the real windowed-read / slice / index code: for each file of a stated family "
         "(2-4 segments, channel present/absent/no-data per segment, 1-3 values x 1-3 chunks, contiguous and interleaved, "
         "four data types, truncated last chunk, zero-length channel) the request is a set of solver variables - lazy "
         "offset/length/start/stop/index unbounded integers, step in [-4,4] - and every feasible path ends in an SMT query "
         "whose unsat verdict covers all requests on that path; counterexamples are replayed on the plain package.",
    note="Trusted: z3, the sx engine and its models (np.searchsorted, int, isinstance, range on symbolic ints), the independent "
         "encoder/oracle vf/tdmsmodel.py, NumPy kernels executed concretely. File shapes are a bounded family, not all files.",
    technique="bounded symbolic execution of the real code + SMT (z3, QF_LIA) per path; replay gate",
)

META = dict(
    level='model_checking',
    functions=['tdms.TdmsChannel.__getitem__', 'tdms.TdmsChannel._read_slice', 'tdms.TdmsChannel._read_at_index',
               'tdms.TdmsChannel.read_data', 'tdms.TdmsChannel._read_channel_data',
               'reader.TdmsReader.read_raw_data_for_channel', 'reader.TdmsReader._build_index',
               'reader.TdmsReader.read_channel_chunk_for_index', 'reader._trim_channel_chunk',
               'tdms_segment.TdmsSegment.read_raw_data_for_channel',
               'tdms_segment.ContiguousDataReader._read_channel_data_chunk', 'channel_data.slice_raw_data',
               'reader._array_equal', 'reader._deduplicate_array'],
    bounds=dict(
        quick='kernel: offset-array comparison of _build_index on arrays of solver integers, lengths 0-6 with block size 1-4 (general) and 0..201 around '
              'multiples of the default block (one differing position); '
              'files: 2-3 segments, channel a present/absent/no-data per segment, 1-3 values per chunk, 1-3 chunks, '
              'companion channel before/after, contiguous+interleaved, int32/float64/string/timestamp, truncated last '
              'chunk, zero-length channel (sampled family, see tasks); lazy requests: offset>=0, length>=0|None, '
              'start/stop in Z|None, index in Z all UNBOUNDED, step in [-4,4]|None; eager requests (NumPy slicing of '
              'the array read in full; pure enumeration) bounded: offset/length/index in [-n-2,n+2], slice start/stop in '
              '[-min(n+1,6), min(n+1,6)], step in [-2,2]',
        thorough='same dimensions, the whole family up to 3 segments (nv,nc<=3) plus sampled 4-segment files'),
    outside=['files outside the shape family', 'step magnitude > 4', 'NumPy slicing itself (eager mode executes it concretely)',
             'DAQmx channels (see C11)'],
    stubs=['np.searchsorted on a symbolic needle (linear scan model)', 'int()/isinstance on symbolic ints',
           'logging calls are no-ops when given symbolic arguments'],
    assumptions=['file bytes come from the independent encoder vf/tdmsmodel.py',
                 'NumPy C kernels are executed concretely, not encoded'],
    buckets=dict(all=['window-spans-segments', 'window-empty', 'window-past-end', 'slice-negative-step',
                      'slice-empty', 'index-negative', 'index-error', 'step-zero-error'] + kdedup.BUCKETS),
    replays_per_signature=4,
    validate_samples=16,
)


# ----------------------------------------------------------------------------- shapes
def make_shape(segs, b_first, inter, tcode, trunc, tb_override=None):
    """segs: list of (state, nv_a, nv_b, nchunks); state in present/absent/nodata/same"""
    shape = []
    for k, (state, nva, nvb, nc) in enumerate(segs):
        objs = []
        if inter:
            nvb = nva if state in ('present', 'same') else nvb
        tb = (2 if not inter else 3) if tb_override is None else tb_override
        a = None
        if state == 'present':
            a = [A, 'full', tcode, nva]
        elif state == 'same':
            a = [A, 'same', tcode, nva]
        elif state == 'nodata':
            a = [A, 'nodata', tcode, 0]
        b = [B, 'full', tb, nvb]
        objs = [x for x in ([b, a] if b_first else [a, b]) if x is not None]
        d = s1.seg(objs, nc, inter=inter)
        if trunc and k == len(segs) - 1:
            d['trunc'] = trunc
        shape.append(d)
    return shape


def shape_family(tier, seed):
    rnd = random.Random(1000 + seed)
    fam = []
    states = ['present', 'absent', 'nodata']
    # systematic 3-segment family: middle segment state x sizes
    for mid in states:
        for nva, nc0, nc2 in [(1, 1, 2), (2, 2, 3), (3, 2, 3), (2, 1, 1), (3, 3, 2)]:
            for b_first in (False, True):
                fam.append(make_shape([('present', nva, 1, nc0), (mid, nva, 1, 1), ('present', nva, 1, nc2)],
                                      b_first, False, 3, 0))
    # first / last segment without the channel
    for nva, nc in [(2, 2), (3, 1)]:
        fam.append(make_shape([('absent', nva, 2, 1), ('present', nva, 1, nc), ('present', nva + 1 if nva < 3 else 2, 1, 2)], False, False, 3, 0))
        fam.append(make_shape([('present', nva, 1, nc), ('present', nva, 2, 2), ('absent', nva, 2, 2)], True, False, 3, 0))
        fam.append(make_shape([('present', nva, 1, nc), ('nodata', nva, 2, 2), ('same', nva, 1, 2)], False, False, 3, 0))
    # varying chunk lengths between segments
    fam.append(make_shape([('present', 1, 1, 3), ('present', 3, 2, 2)], False, False, 3, 0))
    fam.append(make_shape([('present', 3, 1, 1), ('present', 1, 1, 3), ('present', 2, 1, 2)], True, False, 3, 0))
    # interleaved
    for segs in ([('present', 2, 2, 2), ('present', 3, 3, 1)], [('present', 1, 1, 3), ('absent', 1, 2, 1), ('present', 2, 2, 2)]):
        fam.append(make_shape(segs, False, True, 3, 0))
        fam.append(make_shape(segs, True, True, 4, 0))
    # other types
    for tcode in (10, 0x20, 0x44, 8):
        fam.append(make_shape([('present', 2, 1, 2), ('absent', 2, 1, 1), ('present', 2, 1, 2)], False, False, tcode, 0))
        fam.append(make_shape([('present', 3, 1, 1), ('present', 2, 1, 2)], True, False, tcode, 0))
    # companion channel of another kind (string / 8-byte) stored before or after the target channel
    for tbo in (0x20, 4):
        for b_first in (True, False):
            fam.append(make_shape([('present', 2, 2, 2), ('present', 3, 1, 1)], b_first, False, 3, 0, tb_override=tbo))
    # truncated final chunk (contiguous: a first -> a keeps values; interleaved: whole rows)
    fam.append(make_shape([('present', 2, 1, 2), ('present', 3, 1, 2)], False, False, 3, 6))
    fam.append(make_shape([('present', 2, 1, 2), ('present', 3, 1, 3)], True, False, 3, 5))
    fam.append(make_shape([('present', 2, 2, 1), ('present', 3, 3, 2)], False, True, 3, 9))
    fam.append(make_shape([('present', 3, 1, 3)], False, False, 4, 11))
    # systematic truncated family: the truncated segment starts at an index that is / is not a multiple of
    # its chunk size, the partial chunk keeps r of nv1 values
    for nv0 in (1, 2, 3):
        for nc0 in (1, 2):
            for nv1 in (2, 3, 4):
                for r in range(1, nv1):
                    if tier != 'thorough' and (nv0 + nc0 + nv1 + r) % 2:
                        continue
                    fam.append(make_shape([('present', nv0, 1, nc0), ('present', nv1, 1, 3)], False, False, 3,
                                          (nv1 - r) * 4 + 2))
    for nv0, nv1, r in ((1, 3, 1), (2, 3, 2), (3, 2, 1), (3, 4, 1)):
        fam.append(make_shape([('present', nv0, nv0, 1), ('present', nv1, nv1, 3)], False, True, 3, (nv1 - r) * 8))
        fam.append(make_shape([('present', nv0, 1, 2), ('present', nv1, 1, 2)], True, False, 3, (nv1 - r) * 4))
    # the same channels listed in a different order in a later new-object-list segment (index cache keyed by the ordered list)
    for (n0a, n0b, n1a, n1b) in ((2, 1, 3, 2), (1, 3, 2, 1), (3, 3, 1, 2)):
        fam.append([s1.seg([[A, 'full', 3, n0a], [B, 'full', 2, n0b]], 2), s1.seg([[B, 'full', 2, n1b], [A, 'full', 3, n1a]], 2),
                    s1.seg([[A, 'full', 3, n0a], [B, 'full', 2, n0b]], 1)])
    # zero-length channel variants
    fam.append(make_shape([('present', 0, 2, 1)], False, False, 3, 0))
    fam.append(make_shape([('nodata', 0, 2, 1), ('nodata', 0, 1, 2)], False, False, 3, 0))
    fam.append(make_shape([('present', 0, 1, 1), ('present', 0, 2, 2)], True, False, 10, 0))
    # single chunk / single segment baseline
    fam.append(make_shape([('present', 3, 2, 1)], False, False, 3, 0))
    fam.append(make_shape([('present', 2, 1, 3)], True, False, 3, 0))
    if tier == 'thorough':
        # the whole 3-segment product for small sizes
        for st in itertools.product(states, repeat=3):
            if st[0] != 'present' and st[1] != 'present' and st[2] != 'present':
                continue
            for sizes in itertools.product([1, 2, 3], [1, 2, 3]):
                nva, nc = sizes
                for b_first in (False, True):
                    fam.append(make_shape([(st[0], nva, 1, nc), (st[1], nva, 2, 1 + nc % 3), (st[2], nva, 1, nc)],
                                          b_first, False, 3, 0))
        for _ in range(120):
            n = 4
            segs = [(rnd.choice(states + ['present']), rnd.randint(1, 3), rnd.randint(1, 2), rnd.randint(1, 3)) for _ in range(n)]
            if not any(s[0] == 'present' for s in segs):
                continue
            nva = rnd.randint(1, 3)
            segs = [(s[0], nva, s[2], s[3]) for s in segs]
            fam.append(make_shape(segs, rnd.random() < 0.5, False, rnd.choice([3, 3, 10, 0x20, 0x44]), rnd.choice([0, 0, 0, 3])))
    from .. import shapes
    fam += shapes.random_family(seed + 17, 150 if tier == 'thorough' else 12, need_a=True, allow_trunc=True)
    # keep only valid models, dedupe
    out, seen = [], set()
    for sh in fam:
        key = repr(sh)
        if key in seen:
            continue
        seen.add(key)
        try:
            enc = s1.build(sh)
            if any(x.get('trunc') for x in sh) and any(tm.TYPES[t][1] is None for sg in enc.segs for (_, t, _) in sg['objs']):
                continue            # truncated string segments are outside the property
            truncated_expected(enc)
        except tm.Invalid:
            continue
        out.append(sh)
    return out


def tasks(tier, seed):
    """read_data and index requests run on every file of the family.  Slices are normalised by
    TdmsChannel._read_slice (which depends on the file only through len(channel)) and then
    delegated to the windowed read, so the quick tier runs the slice harness on one file per
    (length, feature set) class only; the thorough tier runs it on every file."""
    ts = []
    fam = shape_family(tier, seed)
    seen_classes = set()
    for i, sh in enumerate(fam):
        enc = s1.build(sh)
        n = len(truncated_expected(enc))
        cls = (min(n, 6), tuple(_features(dict(shape=sh), n)), enc.channels[A].tcode)
        apis = ['read_data', 'index']
        if tier == 'thorough' or cls not in seen_classes:
            apis.append('slice')
            seen_classes.add(cls)
        for api in apis:
            if api == 'slice':
                for v in range(8):
                    ts.append(dict(shape=sh, api=api, mode='lazy', sid=i, variant=v))
            else:
                ts.append(dict(shape=sh, api=api, mode='lazy', sid=i))
        # eager mode on a subset (NumPy does the work there; bounded arguments)
        if (tier == 'thorough' and i % 3 == 0) or i % 12 == 0:
            for api in ('read_data', 'index'):
                ts.append(dict(shape=sh, api=api, mode='eager', sid=i))
            for v in range(8):
                ts.append(dict(shape=sh, api='slice', mode='eager', sid=i, variant=v))
    ts.sort(key=lambda t: (0 if t['api'] == 'slice' else 1, t.get('variant', 0)))      # longest tasks first
    return kdedup.tasks(tier) + ts


# ----------------------------------------------------------------------------- harness
def _features(task, n):
    sh = task['shape']
    f = []
    if n == 0:
        f.append('zero-length')
    st = []
    for s in sh:
        a = [o for o in s['objs'] if o[0] == A]
        st.append('absent' if not a else ('nodata' if a[0][1] == 'nodata' else 'data'))
    has = [i for i, x in enumerate(st) if x == 'data']
    if has and any(st[i] != 'data' for i in range(has[0], has[-1])):
        f.append('channel-absent-in-intermediate-segment')
    if any(s.get('trunc') for s in sh):
        f.append('truncated')
    if any(s.get('inter') for s in sh):
        f.append('interleaved')
    return f


def _open(task, enc, stream=None):
    from nptdms import TdmsFile
    f = stream if stream is not None else io.BytesIO(enc.data)
    if task['mode'] == 'lazy':
        return TdmsFile.open(f, raw_timestamps=bool(task.get('raw_ts')))
    return TdmsFile.read(f, raw_timestamps=bool(task.get('raw_ts')))


def expected_full(enc, tdms_channel_len=None):
    ch = enc.channels[A]
    return s1.exp_canon(ch), ch.tcode


def truncated_expected(enc, raw_ts=False):
    """For shapes with a truncated final chunk the oracle keeps the complete chunks plus what the
    format rules keep of the partial chunk: contiguous -> leading channels whole; interleaved -> whole rows."""
    ch = enc.channels[A]
    full = s1.exp_canon(ch, raw_ts)
    last = enc.segs[-1]
    if not last['trunc']:
        return full
    keep = 0
    avail = last['end'] - last['data_start']
    cs = last['chunk_size']
    nfull = avail // cs
    rem = avail - nfull * cs
    objs = last['objs']
    vals_before = sum(c for s, c in ch.seg_counts.items() if s != last['index'])
    nva = [nv for (p, t, nv) in objs if p == A]
    if not nva:
        return full
    nva = nva[0]
    keep = vals_before + nfull * nva
    if rem:
        if last['inter']:
            width = sum(tm.TYPES[t][1] for (p, t, nv) in objs)
            keep += min(nva, rem // width)
        else:
            for (p, t, nv) in objs:
                size = tm.TYPES[t][1]
                if p == A:
                    keep += min(nv, rem // size)
                    break
                rem -= nv * size
                if rem <= 0:
                    break
    return full[:keep]


def run_task(task, full=None, tcode=None):
    if task.get('kind') == 'dedup':
        return kdedup.run_task(task)
    enc = s1.build(task['shape'])
    raw_ts = bool(task.get('raw_ts'))
    full = truncated_expected(enc, raw_ts) if full is None else full
    tcode = enc.channels[A].tcode if tcode is None else tcode
    n = len(full)
    api, mode = task['api'], task['mode']
    eager = mode == 'eager'
    seg_ends = []
    acc = 0
    for si in sorted(enc.channels[A].seg_counts):
        acc += enc.channels[A].seg_counts[si]
        seg_ends.append(acc)

    def canon(arr):
        return s1.got_canon(arr, tcode, raw_ts) if tcode is not None else list(arr)

    def fn(ctx):
        tf = _open(task, enc)
        try:
            ch = tf['g']['a']
            if len(ch) != n:
                ctx.fail('len', got=len(ch), expected=n)
            if api == 'read_data':
                bound = n + 2 if eager else None
                offset = ctx.int('offset', 0, bound)
                haslen = ctx.choice('haslen', 2)
                length = ctx.int('length', 0, bound) if haslen else None
                try:
                    got = ch.read_data(offset, length)
                except Exception as e:
                    ctx.fail('exception', exc=type(e).__name__, msg=str(e)[:100])
                got = canon(got)
                if len(got) == 0:
                    ctx.note('window-empty')
                prop = s1.window_formula(full, got, offset, length, n)
                ctx.prove(prop, dict(got=[s1.show(x) for x in got]), what='wrong-data')
                # coverage buckets (reachability witnesses)
                if seg_ends and len(seg_ends) > 1 and len(got) >= 2:
                    ctx.note('window-spans-segments')
                if ctx.check(ex(offset) > n):
                    ctx.note('window-past-end')
            elif api == 'slice':
                bound = min(n + 1, 6) if eager else None
                sb = 2 if eager else STEP_BOUND
                if task.get('variant') is not None:
                    v = task['variant']
                    sn, en, pn = ctx.int('start_none', v & 1, v & 1), ctx.int('stop_none', (v >> 1) & 1, (v >> 1) & 1), \
                        ctx.int('step_none', (v >> 2) & 1, (v >> 2) & 1)
                    sn, en, pn = v & 1, (v >> 1) & 1, (v >> 2) & 1
                else:
                    sn, en, pn = ctx.choice('start_none', 2), ctx.choice('stop_none', 2), ctx.choice('step_none', 2)
                start = None if sn else ctx.int('start', -bound if bound else None, bound)
                stop = None if en else ctx.int('stop', -bound if bound else None, bound)
                step = None if pn else ctx.int('step', -sb, sb)
                try:
                    got = ch[slice(start, stop, step)]
                except ValueError as e:
                    if step is not None and 'zero' in str(e).lower():
                        ctx.prove(ex(step) == 0, what='ValueError-for-nonzero-step')
                        ctx.note('step-zero-error')
                        return
                    ctx.fail('exception', exc=type(e).__name__, msg=str(e)[:100])
                except Exception as e:
                    ctx.fail('exception', exc=type(e).__name__, msg=str(e)[:100])
                got = canon(got)
                if step is not None:
                    ctx.prove(ex(step) != 0, what='no-error-for-step-zero')
                prop = s1.slice_formula(full, got, start, stop, step, n, STEP_BOUND)
                ctx.prove(prop, dict(got=[s1.show(x) for x in got]), what='wrong-data')
                if len(got) == 0:
                    ctx.note('slice-empty')
                if step is not None and len(got) > 0 and ctx.check(ex(step) < 0):
                    ctx.note('slice-negative-step')
            else:
                bound = n + 2 if eager else None
                i = ctx.int('i', -bound if bound is not None else None, bound)
                try:
                    got = ch[i]
                except IndexError:
                    ctx.prove(z3.Or(ex(i) < -n, ex(i) >= n), what='IndexError-for-valid-index')
                    ctx.note('index-error')
                    return
                except Exception as e:
                    ctx.fail('exception', exc=type(e).__name__, msg=str(e)[:100])
                import numpy as np
                if raw_ts and tcode == 0x44:
                    g = ('ts', int(got.seconds), int(got.second_fractions))
                else:
                    g = canon(np.array([got]) if tcode != 0x20 else [got])[0]
                alts = [z3.Or(ex(i) == c, ex(i) == c - n) for c in range(n) if full[c] == g]
                ctx.prove(z3.Or(*alts) if alts else z3.BoolVal(False), dict(got=s1.show(g)), what='wrong-data')
                if ctx.check(ex(i) < 0):
                    ctx.note('index-negative')
                # a second integer index on the same channel object (the one-chunk cache must not leak into it)
                if not eager and n > 0:
                    j = ctx.int('j', -n, n - 1)
                    try:
                        got2 = ch[j]
                    except Exception as e:
                        ctx.fail('exception', exc=type(e).__name__, msg=str(e)[:100], second_index=True)
                    if raw_ts and tcode == 0x44:
                        g2 = ('ts', int(got2.seconds), int(got2.second_fractions))
                    else:
                        g2 = canon(np.array([got2]) if tcode != 0x20 else [got2])[0]
                    alts2 = [z3.Or(ex(j) == c, ex(j) == c - n) for c in range(n) if full[c] == g2]
                    ctx.prove(z3.Or(*alts2) if alts2 else z3.BoolVal(False), dict(got=s1.show(g2), second_index=True), what='wrong-data')
        finally:
            tf.close()

    st = explore(fn, max_paths=40000, time_budget=600)
    st.pop('wall_s', None)
    return st


# ----------------------------------------------------------------------------- replay / signatures
def signature(c):
    task = c['task']
    if task.get('kind') == 'dedup':
        return kdedup.signature('C04', c)
    enc = s1.build(task['shape'])
    n = len(truncated_expected(enc))
    what = c.get('what', '')
    kind = what
    if what == 'exception':
        kind = 'exception:%s:%s' % (c.get('exc'), _msgclass(c.get('msg', '')))
    feats = _features(task, n)
    return '%s/%s/%s/%s/%s' % (task.get('pid', 'C04'), task['api'], task['mode'], kind, '+'.join(feats) or 'plain')


def _msgclass(msg):
    for key in ('offset must be non-negative', 'could not broadcast', 'length must be non-negative'):
        if key in msg:
            return key.replace(' ', '-')
    return ''.join(ch for ch in msg[:30] if ch.isalpha() or ch == ' ').strip().replace(' ', '-')


def replay(art, full=None, tcode=None):
    """Concrete replay on the plain package.  Returns None if the property holds on this input."""
    import numpy as np
    task, inp = art['task'], art['inputs']
    if task.get('kind') == 'dedup':
        return kdedup.replay('C04', art)
    enc = s1.build(task['shape'])
    raw_ts = bool(task.get('raw_ts'))
    full = truncated_expected(enc, raw_ts) if full is None else full
    tcode = enc.channels[A].tcode if tcode is None else tcode
    n = len(full)
    api = task['api']

    def canon(arr):
        return s1.got_canon(arr, tcode, raw_ts) if tcode is not None else list(arr)

    tf = _open(task, enc)
    try:
        ch = tf['g']['a']
        if len(ch) != n:
            return dict(sig=signature(dict(task=task, what='len')), got=len(ch), expected=n)
        req = None
        try:
            if api == 'read_data':
                off = inp['offset']
                ln = inp.get('length') if inp.get('haslen', 0) else None
                req = dict(offset=off, length=ln)
                exp = full[off:] if ln is None else full[off:off + ln]
                got = canon(ch.read_data(off, ln))
            elif api == 'slice':
                start = None if inp.get('start_none', 0) else inp['start']
                stop = None if inp.get('stop_none', 0) else inp['stop']
                step = None if inp.get('step_none', 0) else inp['step']
                req = dict(start=start, stop=stop, step=step)
                try:
                    exp = full[slice(start, stop, step)]
                except ValueError:
                    exp = 'ValueError'
                try:
                    got = canon(ch[slice(start, stop, step)])
                except ValueError as e:
                    if exp == 'ValueError':
                        return None
                    raise
                if exp == 'ValueError':
                    return dict(sig=signature(dict(task=task, what='no-error-for-step-zero')), request=req)
            else:
                i = inp['i']
                req = dict(i=i)
                try:
                    exp = [full[i]]
                except IndexError:
                    exp = 'IndexError'
                try:
                    g = ch[i]
                except IndexError:
                    if exp == 'IndexError':
                        return None
                    return dict(sig=signature(dict(task=task, what='IndexError-for-valid-index')), request=req)
                if exp == 'IndexError':
                    return dict(sig=signature(dict(task=task, what='wrong-data')), request=req, got=str(g))
                if raw_ts and tcode == 0x44:
                    got = [('ts', int(g.seconds), int(g.second_fractions))]
                else:
                    got = canon(np.array([g]) if tcode != 0x20 else [g])
                if got == exp and 'j' in inp and task['mode'] == 'lazy' and n > 0:
                    j = inp['j']
                    req = dict(i=i, then_j=j)
                    g2 = ch[j]
                    exp = [full[j]]
                    if raw_ts and tcode == 0x44:
                        got = [('ts', int(g2.seconds), int(g2.second_fractions))]
                    else:
                        got = canon(np.array([g2]) if tcode != 0x20 else [g2])
        except Exception as e:
            return dict(sig=signature(dict(task=task, what='exception', exc=type(e).__name__, msg=str(e)[:100])),
                        request=req, exception=repr(e)[:200])
        if got != exp:
            return dict(sig=signature(dict(task=task, what='wrong-data')), request=req,
                        got=[s1.show(x) for x in got], expected=[s1.show(x) for x in exp])
        return None
    finally:
        tf.close()

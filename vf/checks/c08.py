"""C08 -- TdmsWriter emits structurally valid segments and a faithful index file.

S2: the real TdmsWriter (instrumented) writes programs with symbolic pieces (string code points,
integer property magnitudes) into a sink stream; an independent structural parser walks the
bytes by the TDMS layout rules."""
import os
import z3
from ..sx import explore, PathAbort, SymInt
from ..stream import norm_bytes
from .. import wr, tdmsmodel as tm

MANIFEST = dict(
    category='model_checking',
    text="Bounded symbolic execution of the real writer: programs of 1-2 writer sessions x 1-2 write_segment calls over a family of "
         "object lists (root/group/channel mixes, every writable array dtype incl. strings, datetimes, Python int lists and empty "
         "arrays, properties of every supported value type) with string code points (so byte length != character count) and "
         "integer property magnitudes symbolic; the bytes written are walked by an independent parser: lead-in offsets equal the "
         "byte counts written, every length field equals what follows, metadata parses to exactly raw-data-offset bytes, raw data "
         "length equals what types and counts imply, root first, groups before their channels, and the index stream is byte for "
         "byte the data stream minus raw data with TDSh.",
    note="Trusted: z3, sx engine, SinkStream, struct model, SymStr.encode (UTF-8 length classes), the structural parser in vf/wr.py. "
         "ndarray.tobytes content is concrete. Program family is bounded.",
    technique="bounded symbolic execution of the real code + independent structural parse, SMT (z3, QF_LIA) per path; replay gate",
)

META = dict(
    level='model_checking',
    functions=['writer.TdmsWriter.write_segment', 'writer.TdmsSegment.write', 'writer.TdmsSegment.metadata',
               'writer.TdmsSegment.raw_data_index', 'writer.TdmsSegment.leadin', 'writer.TdmsSegment._data_size',
               'writer.object_data_size', 'writer.write_data', 'writer.write_string_values', 'writer.write_values',
               'writer._to_tdms_value', 'writer.to_int_property_value', 'writer._path_ordering_key', 'types.String.__init__',
               'types.StructType.__init__'],
    bounds=dict(quick='1-2 sessions x 1-2 segments, 12 object-list templates, arrays of 0-2 values, symbolic strings of 1-2 characters, '
                      'symbolic integers in [-2^63, 2^64)', thorough='same with 3 segments per session (triples with at most one symbolic-string template)'),
    outside=['longer programs / arrays', 'files given as paths (streams only)', 'values inside numeric arrays'],
    stubs=['SinkStream (write-only, fileno unsupported like BytesIO)', 'path-based sessions: virtual files (open w/a, getsize, isfile, exists, truncate)', 'struct.pack model', 'SymStr.encode: UTF-8 with a fork per '
           'byte-length class'],
    assumptions=['TDMS layout rules as stated in the property (raw data index length 20, 28 for strings)'],
    buckets=dict(all=['string-channel', 'multibyte-string', 'symbolic-int-property', 'index-stream', 'two-sessions', 'empty-array',
                      'path-writer-append']),
    replays_per_signature=3,
    validate_samples=8,
)

TEMPLATES = ['one-chan', 'full', 'two-groups', 'group-only', 'str-chan', 'empty', 'root-only', 'list-int', 'dt-chan', 'str-props',
             'chan-then-group', 'two-chans', 'rejected', 'odd-names', 'prop-alias']
TAGS = wr.NP_TAGS + ['datetime64', 'str']


def template(name, choose, idx, free=True):
    if free:
        tag = TAGS[choose('tag%d' % idx, len(TAGS))] if name in ('one-chan', 'full', 'two-groups', 'two-chans') else 'int32'
        n = choose('n%d' % idx, 3) if name in ('one-chan', 'full', 'two-chans') else 2
    else:       # in multi-segment programs the array dtype and length are tied to the position (keeps the product small)
        base = 'two-chans' if name == 'two-chans-rev' else name
        tag = TAGS[(len(base) * 5 + ord(base[0])) % len(TAGS)]     # a channel keeps its dtype across segments
        n = (idx + len(base)) % 3
    if name == 'one-chan':
        return [['chan', 'g', 'a1', tag, n, [['p', 'symint']]]]
    if name == 'full':
        return [['root', [['r', 'symstr:1'], ['i', 'int:5']]], ['group', 'g', [['gp', 'float']]],
                ['chan', 'g', 'a2', tag, n, [['q', 'bool']]], ['chan', 'g', 'b2', 'float64', 1, []]]
    if name == 'two-groups':
        return [['chan', 'h', 'c3', tag, 1, []], ['chan', 'g', 'a3', 'int16', 2, [['t', 'dt']]]]
    if name == 'group-only':
        return [['group', "it's", [['s', 'str']]]]
    if name == 'str-chan':
        return [['chan', 'g', 's', 'symstr', 1 + choose('ns%d' % idx, 2), []], ['chan', 'g', 'a4', 'int32', 1, []]]
    if name == 'empty':
        et = choose('et%d' % idx, 4)
        return [['chan', 'g', 'e%d' % et, ['float64', 'str', 'datetime64', 'int8'][et], 0, []]]
    if name == 'root-only':
        return [['root', [['big', 'symint'], ['w', 'wrap:Uint64']]]]
    if name == 'list-int':
        return [['chan', 'g', 'l', 'list-int', 2, [['w', 'wrap:Int8'], ['np', 'np:uint16']]]]
    if name == 'list-dt':
        return [['chan', 'g', 'ld', 'list-dt', 4, []], ['chan', 'g', 'ld2', 'list-dt', 2, []]]
    if name == 'dt-chan':
        return [['chan', 'g', 'd', 'datetime64', 2, []], ['chan', 'g', 'a5', 'uint8', 3, []]]
    if name == 'str-props':
        return [['group', 'g', [['s1', 'symstr:2'], ['s2', 'str']]], ['chan', 'g', 'a6', 'str', 2, [['s3', 'symstr:1']]]]
    if name == 'chan-then-group':
        return [['chan', 'g', 'a7', 'int32', 1, []], ['group', 'g', [['late', 'int:-2147483649']]], ['root', []]]
    if name == 'chan-then-newgroup':
        # an explicit GroupObject for a group not declared before, listed AFTER one of its channels; nothing implicit to add
        return [['chan', 'g7', 'b9', 'int32', 1, []], ['group', 'g7', [['late', 'int:1']]], ['chan', 'g7', 'c9', 'int16', 2, []]]
    if name == 'odd-names':
        # empty channel / group names, quotes and slashes; the group objects are auto-added by the writer
        return [['chan', 'g', '', 'int32', 1, []], ['chan', '', "it's/a", 'int16', 2, []], ['chan', 'g', 'z9', 'uint8', 1, []]]
    if name == 'prop-alias':
        # one property name on several objects with values that compare equal in Python but differ in TDMS type or sign
        return [['root', [['k', 'int:1'], ['z', 'float:0.0'], ['two', 'int:2']]],
                ['group', 'g', [['k', 'bool:True'], ['z', 'float:-0.0'], ['two', 'float:2.0']]],
                ['chan', 'g', 'a10', 'int32', 1, [['k', 'float:1.0'], ['z', 'int:0'], ['two', 'int:2']]],
                ['chan', 'g', 'b10', 'int32', 1, [['k', 'int:1'], ['z', 'bool:False'], ['two', 'float:2.0']]]]
    if name == 'tags-in-content':
        # the segment tags as ordinary content: names, string values and an integer whose bytes spell TDSm (index = data minus raw data, tag swapped ONLY)
        return [['root', [['tag', 'int:1834173524'], ['s', 'strv:xTDSmTDShy'], ['TDSm', 'int:1750287444']]],
                ['group', 'TDSm', [['TDSh', 'strv:TDSm']]], ['chan', 'TDSm', 'TDSh', 'int32', 1, [['k', 'strv:TDSh']]],
                ['chan', 'g', 'TDSmTDSm', 'uint8', 4, []]]
    if name == 'rejected':
        return [['chan', 'g2', 'r9', 'int32', 1, [['bad', 'unsupported']]]]
    if name == 'big':
        # raw data larger than the usual 8 KiB / 64 KiB I/O block sizes (one element past the boundary)
        return [['chan', 'g', 'big8', 'float64', 8193, []], ['chan', 'g', 'big1', 'uint8', 65537, []], ['chan', 'g', 'big2', 'int16', 4097, []]]
    if name == 'two-chans':
        return [['chan', 'g', 'a8', tag, n, []], ['chan', 'g', 'b8', tag, 2 - min(n, 2), []]]
    if name == 'two-chans-rev':
        # the same two channels listed in the opposite order (a later segment of the same session must start a new object list)
        return [['chan', 'g', 'b8', tag, 1 + n % 2, []], ['chan', 'g', 'a8', tag, 2, []]]
    raise ValueError(name)


def gen_program(task, choose):
    sessions = []
    idx = 0
    for si, segnames in enumerate(task['sessions']):
        segs = []
        for name in segnames:
            segs.append(template(name, choose, idx, free=(sum(len(x) for x in task['sessions']) == 1)))
            idx += 1
        sessions.append(dict(version=task['versions'][si], segments=segs))
    return sessions


def tasks(tier, seed):
    ts = []
    for t in TEMPLATES:
        ts.append(dict(sessions=[[t]], versions=[4712], index=True))
    pairs = [(a, b) for a in TEMPLATES for b in TEMPLATES if (TEMPLATES.index(a) * 5 + TEMPLATES.index(b)) % (3 if tier == 'quick' else 1) == 0]
    for a, b in pairs:
        ts.append(dict(sessions=[[a, b]], versions=[4713], index=True))
        ts.append(dict(sessions=[[a], [b]], versions=[4712, 4712], index=(TEMPLATES.index(a) % 2 == 0)))
    ts.append(dict(sessions=[['big']], versions=[4712], index=True))
    ts.append(dict(sessions=[['one-chan', 'chan-then-newgroup']], versions=[4713], index=True))
    ts.append(dict(sessions=[['full'], ['chan-then-newgroup']], versions=[4712, 4712], index=True))
    ts.append(dict(sessions=[['chan-then-newgroup']], versions=[4712], index=False))
    ts.append(dict(sessions=[['tags-in-content']], versions=[4712], index=True))
    ts.append(dict(sessions=[['tags-in-content', 'one-chan']], versions=[4713], index=True))
    ts.append(dict(sessions=[['list-dt']], versions=[4712], index=True))
    ts.append(dict(sessions=[['list-dt', 'dt-chan']], versions=[4713], index=False))
    ts.append(dict(sessions=[['two-chans', 'two-chans-rev']], versions=[4713], index=True))
    ts.append(dict(sessions=[['two-chans', 'two-chans', 'two-chans-rev']], versions=[4712], index=False))
    ts.append(dict(sessions=[['two-chans'], ['two-chans-rev']], versions=[4712, 4713], index=True))
    ts.append(dict(sessions=[['big', 'one-chan']], versions=[4713], index=False))
    for segs in (['full', 'one-chan'], ['one-chan', 'str-chan', 'two-groups'], ['str-props', 'dt-chan'],
                 ['group-only', 'one-chan'], ['root-only', 'full', 'one-chan']):          # (first session without raw data: index as long as the data file)
        ts.append(dict(kind='paths', segs=segs, sessions=[segs], versions=[4712], index=True))
    if tier == 'thorough':
        for a, b, c in [(x, y, z) for x in TEMPLATES[:6] for y in TEMPLATES[4:9] for z in TEMPLATES[::3]]:
            if sum(x.startswith('str-') for x in (a, b, c)) > 1:
                continue            # three calls with two symbolic-string templates exceed the per-task budget (pairs cover them)
            ts.append(dict(sessions=[[a, b, c]], versions=[4712], index=True))
    return ts


def check_streams(data_items, index_items, with_index):
    """independent structural checks; returns list of problem strings"""
    segs, problems = wr.parse_structure(data_items, b'TDSm', True)
    problems = list(problems)
    if not segs and not data_items:
        return problems, segs            # nothing was emitted (every call rejected)
    end = segs[-1]['data_start'] + int(segs[-1]['data_len']) if segs else 0
    if not problems and end != len(data_items):
        problems.append('trailing bytes after the last segment: %d of %d parsed' % (end, len(data_items)))
    problems += wr.hierarchy_problems(segs)
    # raw data length of string channels: offsets + bytes (structure of the raw data itself)
    for sg in segs:
        if 'data' not in sg:
            continue
        pos = 0
        for o in sg['objs']:
            if 'tcode' not in o:
                continue
            if o['tcode'] == 0x20:
                n, total = int(o['count']), int(o['total'])
                d = sg['data'][pos:pos + total]
                if len(d) != total:
                    problems.append('string channel %s: %d bytes declared, %d present' % (o['path'], total, len(d)))
                    break
                offs = [wr.sym_unpack('<L', norm_bytes(d[4 * i:4 * i + 4]))[0] for i in range(n)]
                if n and (offs[-1] != total - 4 * n):
                    problems.append('string channel %s: last offset %r but %d bytes of strings follow the offset table' % (o['path'], offs[-1], total - 4 * n))
                if any(b < a for a, b in zip([0] + offs, offs)):
                    problems.append('string channel %s: offsets not increasing %r' % (o['path'], offs))
                pos += total
            elif o['tcode'] != 0:
                pos += int(o['count']) * wr.TCODE_SIZE[o['tcode']]
    if with_index:
        want = []
        for sg in segs:
            want += list(b'TDSh') + list(data_items[sg['start'] + 4: sg['data_start']])
        got = list(index_items)
        same = len(got) == len(want) and all((a is b) or (isinstance(a, int) and isinstance(b, int) and a == b) or
                                             (not isinstance(a, int) and not isinstance(b, int) and a.e.eq(b.e)) for a, b in zip(got, want))
        if not same:
            problems.append('index stream differs from the data stream minus raw data (lengths %d vs %d)' % (len(got), len(want)))
    return problems, segs


class _PathSink:
    """file handle of the virtual file system used for path-based writers: 'w' truncates, 'a' appends"""

    def __init__(self, store, path, mode):
        self.store, self.path, self.closed = store, path, False
        if 'w' in mode or path not in store:
            store[path] = []

    def write(self, b):
        if self.closed:
            raise ValueError('write to closed file')
        self.store[self.path].extend(list(b))
        return len(b)

    def read(self, *a):
        import io
        raise io.UnsupportedOperation('read')

    def flush(self):
        pass

    def tell(self):
        return len(self.store[self.path])

    def seek(self, off, whence=0):
        if (whence, off) not in ((2, 0), (0, len(self.store[self.path]))):
            raise OSError('virtual append-only file: seek(%r, %r)' % (off, whence))
        return len(self.store[self.path])

    def truncate(self, size=None):
        size = len(self.store[self.path]) if size is None else size
        del self.store[self.path][size:]
        return size

    def fileno(self):
        import io
        raise io.UnsupportedOperation('fileno')

    def close(self):
        self.closed = True


def _run_paths(task):
    """TdmsWriter given a PATH (model of open()): sessions in 'w' then 'a' mode, index_file=True -> <path>_index"""
    import builtins
    from nptdms.writer import TdmsWriter
    from .. import dispatch

    def fn(ctx):
        store, handles = {}, []

        def vopen(path, mode='r', *a, **k):
            h = _PathSink(store, str(path), mode)
            handles.append(h)
            return h
        def vgetsize(path):
            if str(path) not in store:
                raise FileNotFoundError(str(path))
            return len(store[str(path)])
        dispatch.OVERRIDES[builtins.open] = vopen
        dispatch.OVERRIDES[os.path.getsize] = vgetsize
        dispatch.OVERRIDES[os.path.isfile] = lambda p: str(p) in store
        dispatch.OVERRIDES[os.path.exists] = lambda p: str(p) in store
        try:
            prog = wr.Program(ctx)
            segs = [template(n, ctx.choice, i, free=False) for i, n in enumerate(task['segs'])]
            with_index = bool(ctx.choice('index', 2))
            P = '/vfs/out.tdms'
            with TdmsWriter(P, 'w', index_file=with_index) as w:
                w.write_segment([prog.obj(o) for o in segs[0]])
            with TdmsWriter(P, 'a', version=4712, index_file=with_index) as w:
                for sg in segs[1:]:
                    w.write_segment([prog.obj(o) for o in sg])
        finally:
            for f_ in (builtins.open, os.path.getsize, os.path.isfile, os.path.exists):
                dispatch.OVERRIDES.pop(f_, None)
        ctx.obligations += 1
        if any(not h.closed for h in handles):
            ctx.fail('structure', problems=['writer left a file handle open'])
        if sorted(store) != sorted([P] + ([P + '_index'] if with_index else [])):
            ctx.fail('structure', problems=['files written: %r' % sorted(store)])
        problems, parsed = check_streams(store[P], store.get(P + '_index'), with_index)
        if problems:
            ctx.fail('structure', problems=problems[:4])
        if len(parsed) != len(segs):
            ctx.fail('structure', problems=['%d segments written by %d calls' % (len(parsed), len(segs))])
        ctx.discharged += 1
        ctx.note('path-writer-append')

    st = explore(fn, max_paths=5000, time_budget=600)
    st.pop('wall_s', None)
    return st


def run_task(task):
    if task.get('kind') == 'paths':
        return _run_paths(task)

    def fn(ctx):
        sessions = gen_program(task, ctx.choice)
        ctx.info['program'] = str(sessions)[:400]
        try:
            data, index, prog = wr.run_program(ctx, sessions, with_index=task['index'])
        except PathAbort:
            raise
        except TypeError as e:
            if "'NoneType' and 'int'" in str(e):
                # an empty array without a TDMS type (object / datetime64 dtype of length 0) is not accepted by the writer:
                # outside this property's quantifier (accepted programs); recorded under C10
                ctx.note('not-accepted-empty-untyped-array')
                raise PathAbort()
            ctx.fail('writer-exception', exc=type(e).__name__, msg=str(e)[:120])
        except Exception as e:
            ctx.fail('writer-exception', exc=type(e).__name__, msg=str(e)[:120])
        ctx.obligations += 1
        problems, segs = check_streams(data.items, index.items if index else None, task['index'])
        if problems:
            ctx.fail('structure', problems=problems[:4])
        ctx.discharged += 1
        if any(o.get('tcode') == 0x20 for sg in segs for o in sg['objs']):
            ctx.note('string-channel')
        if any(not isinstance(b, int) and b.origin is not None and b.origin[2] > 1 for b in data.items):
            ctx.note('multibyte-string')
        if any(k.startswith('int_') for k in ctx.inputs):
            ctx.note('symbolic-int-property')
        if task['index']:
            ctx.note('index-stream')
        if len(task['sessions']) > 1:
            ctx.note('two-sessions')
        if any(o.get('count') == 0 for sg in segs for o in sg['objs'] if 'count' in o):
            ctx.note('empty-array')

    st = explore(fn, max_paths=30000, time_budget=900)
    st.pop('wall_s', None)
    return st


def signature(c):
    what = c.get('what', '')
    if what == 'writer-exception':
        return 'C08/writer-exception/%s' % c.get('exc')
    probs = c.get('problems') or ['']
    p = probs[0]
    key = 'other'
    for k in ('raw data index length field', 'raw data offset', 'next segment offset', 'index stream', 'root object', 'before its group',
              'string channel', 'runs past', 'trailing bytes', 'starts with'):
        if k in p:
            key = k.replace(' ', '-')
            break
    return 'C08/structure/%s' % key


def concretize_objects(task, inp):
    return concretize_program(task, inp, _objects_only=True)


def concretize_program(task, inp, _objects_only=False):
    """the same program with the model's concrete values (for the plain-package replay)"""
    import numpy as np
    from nptdms.writer import TdmsWriter, RootObject, GroupObject, ChannelObject
    import nptdms.types as types
    import io
    sessions = gen_program(task, lambda name, n: inp.get(name, 0))
    data = io.BytesIO()
    index = io.BytesIO() if task['index'] else None
    state = dict(k=0, nprops=0, props={})

    def pval(path, name, kind):
        uid = '%s_%d' % (name, len(state['props'].get(path, {})) + 7 * len(state['props']))
        state['props'].setdefault(path, {})[name] = 1
        if kind == 'symint':
            return int(inp.get('int_' + uid, 0))
        if kind.startswith('int:'):
            return int(kind[4:])
        if kind == 'float':
            return 2.5
        if kind.startswith('float:'):
            return float(kind[6:])
        if kind == 'bool':
            return True
        if kind.startswith('bool:'):
            return kind[5:] == 'True'
        if kind == 'str':
            return 'vä/lue'
        if kind.startswith('strv:'):
            return kind[5:]
        if kind.startswith('symstr:'):
            return ''.join(chr(inp.get('str_%s_%d' % (uid, i), 97)) for i in range(int(kind[7:])))
        if kind == 'dt':
            return np.datetime64('2021-03-04T05:06:07.250000', 'us')
        if kind.startswith('np:'):
            t = kind[3:]
            return np.dtype(t).type(wr.planted(t, 1, 3)[0])
        if kind == 'unsupported':
            return object()
        if kind.startswith('wrap:'):
            cls = getattr(types, kind[5:])
            return cls({'Int8': -5, 'Uint16': 65535, 'Uint64': 2 ** 64 - 1, 'SingleFloat': 0.5, 'Int64': -2 ** 62}[kind[5:]])
        raise ValueError('unknown property kind %r' % kind)

    def obj(spec):
        if spec[0] == 'root':
            return RootObject({n: pval('/', n, k) for n, k in spec[1]} or None)
        if spec[0] == 'group':
            return GroupObject(spec[1], {n: pval(tm.make_path(spec[1]), n, k) for n, k in spec[2]} or None)
        _, g, c, tag, n, pspec = spec
        path = tm.make_path(g, c)
        state['props'].setdefault(tm.make_path(g), state['props'].get(tm.make_path(g), {}))
        state['k'] += 3
        if tag == 'symstr':
            arr = np.empty(n, dtype=object)
            for i in range(n):
                arr[i] = chr(inp.get('dat_%s_%d_%d_0' % (c, state['k'], i), 97))
        elif tag == 'list-int':
            arr = [(-1) ** i * (state['k'] + i) for i in range(n)]
        elif tag == 'list-dt':
            arr = wr.list_dt(n, state['k'])
        else:
            arr = wr.planted(tag, n, state['k'])
        return ChannelObject(g, c, arr, {n_: pval(path, n_, k) for n_, k in pspec} or None)
    if _objects_only:
        return [[obj(o) for o in seg] for ses in sessions for seg in ses['segments']]
    for ses in sessions:
        with TdmsWriter(data, version=ses['version'], index_file=index if task['index'] else False) as w:
            for seg in ses['segments']:
                rejected = any(k == 'unsupported' for o in seg for (_, k) in (o[1] if o[0] == 'root' else o[2] if o[0] == 'group' else o[5]))
                try:
                    w.write_segment([obj(o) for o in seg])
                except TypeError:
                    if not rejected:
                        raise
    return data.getvalue(), (index.getvalue() if index else None)


def replay(art):
    task, inp = art['task'], art['inputs']
    if task.get('kind') == 'paths':
        return _replay_paths(task, inp)
    try:
        data, index = concretize_program(task, inp)
    except Exception as e:
        return dict(sig='C08/writer-exception/%s' % type(e).__name__, exception=repr(e)[:200])
    problems, segs = check_streams(list(data), list(index) if index is not None else None, task['index'])
    if problems:
        return dict(sig=signature(dict(task=task, what='structure', problems=problems)), problems=problems[:4])
    return None


def _replay_paths(task, inp):
    """real files in a temporary directory"""
    import os
    import shutil
    import tempfile
    from nptdms.writer import TdmsWriter
    d = tempfile.mkdtemp(prefix='vf_c08_')
    try:
        t2 = dict(task, sessions=[[n] for n in task['segs']], versions=[4712] * len(task['segs']))
        sessions = gen_program(dict(task, sessions=[task['segs']]), lambda name, n: inp.get(name, 0))
        # rebuild concrete objects through the same helper as concretize_program by writing session-wise to real paths
        import numpy as np
        P = os.path.join(d, 'out.tdms')
        with_index = bool(inp.get('index', 0))
        progs = concretize_objects(dict(task, sessions=[task['segs']], index=False), inp)
        with TdmsWriter(P, 'w', index_file=with_index) as w:
            w.write_segment(progs[0])
        with TdmsWriter(P, 'a', index_file=with_index) as w:
            for objs in progs[1:]:
                w.write_segment(objs)
        data = open(P, 'rb').read()
        index = open(P + '_index', 'rb').read() if with_index else None
        if (not with_index) and os.path.exists(P + '_index'):
            return dict(sig='C08/structure/other', problems=['index file written although not requested'])
        problems, segs = check_streams(list(data), list(index) if index is not None else None, with_index)
        if problems:
            return dict(sig=signature(dict(task=task, what='structure', problems=problems)), problems=problems[:4])
        return None
    finally:
        shutil.rmtree(d, ignore_errors=True)

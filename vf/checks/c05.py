"""C05 -- reads from an open file are independent of earlier reads.

S4 on S1 files: bounded histories of read operations (kinds and arguments symbolic) on one lazily
opened file with live channel-level and file-level chunk iterators; every result is compared with
what the same request yields on a freshly opened file and with the oracle."""
import io
import itertools
import z3
from .. import s1, tdmsmodel as tm
from ..sx import explore, ex, PathAbort
from . import c04, kdedup

A, B = c04.A, c04.B
OPS = ['index_a', 'index_b', 'read_a', 'read_b', 'next_chan_a', 'next_chan_b', 'next_file']

MANIFEST = dict(
    category='model_checking',
    text="Bounded-history exploration decided by the solver: on each of a few multi-chunk, multi-segment files (contiguous, "
         "interleaved, channel absent from a segment) every sequence of H read operations - kind in {index, windowed read, next() "
         "on a live channel stream, next() on the live file stream} on either channel, arguments symbolic integers - is a path of "
         "the real code; each result is compared with the fresh-file result and the oracle, and at the end every iterator is "
         "drained and must deliver the remaining chunks in order.  The solver enumerates the feasible histories and decides the "
         "window arithmetic of each operation; this is the bounded-history analogue of a model check.",
    note="Trusted: z3, sx engine, oracle. Bounds: history length H (3 quick on the first file, 2 on the others; thorough 3 on all), "
         "windows of length <= 2, files of the stated family. Single-threaded histories only (as the property states).",
    technique="bounded symbolic execution of operation histories on the real code + SMT (z3, QF_LIA) per path; replay gate",
)

META = dict(
    level='model_checking',
    functions=['tdms_segment.TdmsSegment._read_channel_data_chunks', 'tdms_segment.TdmsSegment.read_raw_data',
               'base_segment.BaseDataReader.read_data_chunks', 'reader.TdmsReader._verify_segment_start',
               'reader.TdmsReader.read_raw_data', 'reader.TdmsReader.read_raw_data_for_channel', 'reader.TdmsReader._build_index',
               'reader._deduplicate_array', 'tdms.TdmsChannel._read_at_index (one-chunk cache)', 'tdms.TdmsFile.data_chunks',
               'tdms.TdmsChannel.data_chunks'],
    bounds=dict(quick='4 files (2 segments x 2 chunks contiguous; same interleaved; 3 segments with chunk counts 1,3,2 and channel b '
                      'absent from the middle one; one segment whose last chunk is declared partial by the lead-in); histories of length 3 on the first file and 2 on the others over 7 operation '
                      'kinds; index any valid position; windows offset in [0,n], length in {1,2}',
                thorough='histories of length 3 on every file'),
    outside=['longer histories', 'threads', 'slices with steps (same code path as windows, see C04)', 'DAQmx files'],
    stubs=c04.META['stubs'],
    assumptions=c04.META['assumptions'] + ['reference for each operation = the same request on a freshly opened file, cross-checked '
                                           'with the oracle (concatenation of chunks == channel values, offsets == running count)'],
    buckets=dict(all=['index-after-stream', 'stream-after-index', 'file-stream-interleaved', 'cache-hit-after-other-read',
                      'drain-complete'] + kdedup.BUCKETS),
    replays_per_signature=4,
    validate_samples=10,
)


def files():
    f1 = [s1.seg([[A, 'full', 3, 2], [B, 'full', 2, 1]], 2), s1.seg([[A, 'full', 3, 2], [B, 'full', 2, 1]], 2)]
    f2 = [s1.seg([[A, 'full', 3, 2], [B, 'full', 3, 2]], 2, inter=True), s1.seg([[A, 'full', 3, 1], [B, 'full', 3, 1]], 2, inter=True)]
    f3 = [s1.seg([[B, 'full', 2, 2], [A, 'full', 3, 1]], 1), s1.seg([[A, 'full', 3, 2]], 3), s1.seg([[A, 'full', 3, 1], [B, 'full', 2, 1]], 2)]
    return [f1, f2, f3]


def _build(task):
    """(enc, {key: expected canonical values}).  File 3 is a 'declared partial chunk' file: the last chunk of its only segment
    holds one of the two values of each channel and the lead-in says so (the segment is complete as declared, not cut by a crash),
    which makes the reader split the chunk proportionally (TdmsSegment._compute_final_chunk_lengths, not-incomplete branch)."""
    import copy
    import struct
    enc = s1.build(task['shape'])
    full = {'a': s1.exp_canon(enc.channels[A]), 'b': s1.exp_canon(enc.channels[B])}
    if task.get('declared_partial'):
        sg = enc.segs[-1]
        assert sg['chunk_size'] == 12 and sg['nchunks'] == 3
        last = sg['data_start'] + 24
        d = bytearray(enc.data)
        new_tail = bytes(d[last:last + 4]) + bytes(d[last + 8:last + 10])
        d[last:] = new_tail
        nso = struct.unpack('<Q', bytes(d[sg['start'] + 12:sg['start'] + 20]))[0]
        d[sg['start'] + 12:sg['start'] + 20] = struct.pack('<Q', nso - 6)
        enc = copy.copy(enc)
        enc.data = bytes(d)
        full = {'a': full['a'][:-1], 'b': full['b'][:-1]}
    return enc, full


def tasks(tier, seed):
    ts = []
    for fi, sh in enumerate(files()):
        H = (3 if fi == 0 else 2) if tier == 'quick' else 3          # (H = 4 on the first file exhausts the per-task budget: not claimed)
        fixed = 2 if H >= 3 else 1
        for pre in itertools.product(range(len(OPS)), repeat=fixed):
            ts.append(dict(shape=sh, file=fi, H=H, prefix=list(pre)))
    # file 3: declared partial final chunk (histories that start with an integer index or a window, on either channel)
    f4 = [s1.seg([[A, 'full', 3, 2], [B, 'full', 2, 2]], 3)]
    for pre in range(4):
        ts.append(dict(shape=f4, file=3, H=2 if tier == 'quick' else 3, prefix=[pre], declared_partial=True))
    return ts + kdedup.tasks(tier)          # the offset arrays one channel's index may share with another's (_build_index)


def _chunks_fresh(enc):
    """Reference chunk sequences from a freshly opened file (same code, no interleaving)."""
    from nptdms import TdmsFile
    ref = {}
    with TdmsFile.open(io.BytesIO(enc.data)) as tf:
        for key, path in (('a', A), ('b', B)):
            ch = tf['g'][key]
            ref['chan_' + key] = [(s1.got_canon(c[:], enc.channels[path].tcode), c.offset) for c in ch.data_chunks()]
        fl = []
        for dc in tf.data_chunks():
            fl.append({key: (s1.got_canon(dc['g'][key][:], enc.channels[path].tcode), dc['g'][key].offset)
                       for key, path in (('a', A), ('b', B))})
        ref['file'] = fl
    return ref


def _oracle_ok(enc, ref, fullmap=None):
    for key, path in (('a', A), ('b', B)):
        full = s1.exp_canon(enc.channels[path]) if fullmap is None else fullmap[key]
        cat, run = [], 0
        for vals, off in ref['chan_' + key]:
            if off != run:
                return 'channel stream offset %r != %r' % (off, run)
            cat += vals
            run += len(vals)
        if cat != full:
            return 'channel stream concatenation differs from the oracle for %s' % key
        cat, run = [], 0
        for d in ref['file']:
            vals, off = d[key]
            if off != run:
                return 'file stream offset %r != %r' % (off, run)
            cat += vals
            run += len(vals)
        if cat != full:
            return 'file stream concatenation differs from the oracle for %s' % key
    return None


class History:
    """Runs one history on one open file and reports the first deviation."""

    def __init__(self, enc, ref, tf, full=None):
        self.enc, self.ref, self.tf = enc, ref, tf
        self.ch = {'a': tf['g']['a'], 'b': tf['g']['b']}
        self.full = full or {'a': s1.exp_canon(enc.channels[A]), 'b': s1.exp_canon(enc.channels[B])}
        self.tc = {'a': enc.channels[A].tcode, 'b': enc.channels[B].tcode}
        self.its = {'chan_a': self.ch['a'].data_chunks(), 'chan_b': self.ch['b'].data_chunks(), 'file': tf.data_chunks()}
        self.pos = {'chan_a': 0, 'chan_b': 0, 'file': 0}
        self.log = []

    def canon(self, key, arr):
        return s1.got_canon(arr, self.tc[key])

    def index(self, key, i):
        import numpy as np
        got = self.canon(key, np.array([self.ch[key][i]]))[0]
        iv = int(i)
        self.log.append(['index', key, iv])
        if got != self.full[key][iv]:
            return dict(what='index', got=s1.show(got), expected=s1.show(self.full[key][iv]))

    def read(self, key, o, l):
        got = self.canon(key, self.ch[key].read_data(o, l))
        ov, lv = int(o), int(l)
        self.log.append(['read', key, ov, lv])
        exp = self.full[key][ov:ov + lv]
        if got != exp:
            return dict(what='read_data', got=[s1.show(x) for x in got], expected=[s1.show(x) for x in exp])

    def next(self, which):
        k = self.pos[which]
        refseq = self.ref[which]
        self.log.append(['next', which])
        try:
            c = next(self.its[which])
        except StopIteration:
            if k < len(refseq):
                return dict(what='stream-ended-early', stream=which, delivered=k, expected=len(refseq))
            self.log[-1].append('exhausted')
            return None
        if k >= len(refseq):
            return dict(what='stream-too-long', stream=which)
        self.pos[which] = k + 1
        if which == 'file':
            got = {key: (self.canon(key, c['g'][key][:]), c['g'][key].offset) for key in ('a', 'b')}
            exp = refseq[k]
        else:
            key = which[-1]
            got = (self.canon(key, c[:]), c.offset)
            exp = refseq[k]
        if got != exp:
            return dict(what='stream-chunk', stream=which, chunk=k, got=_show(got), expected=_show(exp))

    def drain(self):
        for which in ('chan_a', 'chan_b', 'file'):
            while True:
                k = self.pos[which]
                r = self.next(which)
                if r is not None:
                    r['what'] = 'drain-' + r['what']
                    return r
                if self.log[-1][-1] == 'exhausted':
                    break
        return None


def _show(x):
    if isinstance(x, dict):
        return {k: _show(v) for k, v in x.items()}
    if isinstance(x, (tuple, list)):
        return [_show(v) for v in x]
    return s1.show(x)


def run_task(task):
    from nptdms import TdmsFile
    if task.get('kind') == 'dedup':
        return kdedup.run_task(task)
    enc, full = _build(task)
    ref = _chunks_fresh(enc)
    bad = _oracle_ok(enc, ref, full)
    na, nb = len(full['a']), len(full['b'])
    H, prefix = task['H'], task['prefix']

    def fn(ctx):
        if bad:
            ctx.fail('fresh-file-streams-differ-from-oracle', why=bad)
        tf = TdmsFile.open(io.BytesIO(enc.data))
        try:
            h = History(enc, ref, tf, full)
            kinds = []
            for step in range(H):
                if step < len(prefix):
                    k = prefix[step]
                    ctx.int('op%d' % step, k, k)
                else:
                    k = ctx.choice('op%d' % step, len(OPS))
                kinds.append(OPS[k])
                op = OPS[k]
                try:
                    if op.startswith('index'):
                        key = op[-1]
                        n = na if key == 'a' else nb
                        i = ctx.int('i%d' % step, 0, n - 1)
                        r = h.index(key, i)
                    elif op.startswith('read'):
                        key = op[-1]
                        n = na if key == 'a' else nb
                        o = ctx.int('o%d' % step, 0, n)
                        l = ctx.int('l%d' % step, 1, 2)
                        r = h.read(key, o, l)
                    else:
                        r = h.next(op[5:])
                except PathAbort:
                    raise
                except Exception as e:
                    ctx.fail('exception', exc=type(e).__name__, msg=str(e)[:100], history=h.log, step=step)
                if r is not None:
                    ctx.fail(r.pop('what'), history=h.log, step=step, **r)
            try:
                r = h.drain()
            except Exception as e:
                ctx.fail('drain-exception', exc=type(e).__name__, msg=str(e)[:100], history=h.log)
            if r is not None:
                ctx.fail(r.pop('what'), history=h.log, **r)
            ctx.obligations += 1
            ctx.discharged += 1
            ctx.info['history'] = h.log[:H]
            ctx.note('drain-complete')
            ks = [x.split('_')[0] for x in kinds]
            for a, b in zip(ks, ks[1:]):
                if a == 'next' and b == 'index':
                    ctx.note('index-after-stream')
                if a == 'index' and b == 'next':
                    ctx.note('stream-after-index')
            if 'next_file' in kinds and len(set(kinds)) > 1:
                ctx.note('file-stream-interleaved')
            if kinds.count('index_a') >= 2 or kinds.count('index_b') >= 2:
                ctx.note('cache-hit-after-other-read')
        finally:
            tf.close()

    st = explore(fn, max_paths=400000, time_budget=2400)
    st.pop('wall_s', None)
    return st


def signature(c):
    if c['task'].get('kind') == 'dedup':
        return kdedup.signature('C05', c)
    what = c.get('what', '')
    if what in ('exception', 'drain-exception'):
        what += ':' + str(c.get('exc'))
    stream = c.get('stream', '')
    return 'C05/file%d/%s/%s' % (c['task']['file'], what, stream)


def replay(art):
    from nptdms import TdmsFile
    task, inp = art['task'], art['inputs']
    if task.get('kind') == 'dedup':
        return kdedup.replay('C05', art)
    enc, full = _build(task)
    ref = _chunks_fresh(enc)
    bad = _oracle_ok(enc, ref, full)
    if bad:
        return dict(sig=signature(dict(task=task, what='fresh-file-streams-differ-from-oracle')), why=bad)
    tf = TdmsFile.open(io.BytesIO(enc.data))
    try:
        h = History(enc, ref, tf, full)
        for step in range(task['H']):
            if ('op%d' % step) not in inp:
                break
            op = OPS[inp['op%d' % step]]
            try:
                if op.startswith('index'):
                    r = h.index(op[-1], inp['i%d' % step])
                elif op.startswith('read'):
                    r = h.read(op[-1], inp['o%d' % step], inp['l%d' % step])
                else:
                    r = h.next(op[5:])
            except Exception as e:
                return dict(sig=signature(dict(task=task, what='exception', exc=type(e).__name__)), history=h.log, exception=repr(e)[:200])
            if r is not None:
                return dict(sig=signature(dict(task=task, what=r['what'], stream=r.get('stream', ''))), history=h.log, **_show(r))
        try:
            r = h.drain()
        except Exception as e:
            return dict(sig=signature(dict(task=task, what='drain-exception', exc=type(e).__name__)), history=h.log, exception=repr(e)[:200])
        if r is not None:
            return dict(sig=signature(dict(task=task, what=r['what'], stream=r.get('stream', ''))), history=h.log[:task['H']], **_show(r))
        return None
    finally:
        tf.close()

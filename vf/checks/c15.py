"""C15 -- byte order of a segment does not change its meaning.

The oracle is byte-order agnostic (logical content), so 'reads identically' follows from every
encoding - byte order chosen independently per segment - reading equal to the logical content.
Families: (T) every readable type x header reuse kind x byte-order pair; (H) the C02 inheritance
sequences with a byte order per segment."""
import io
import itertools
import z3
from .. import s1, tdmsmodel as tm
from ..sx import explore, PathAbort
from . import c02, c04

A, B = c04.A, c04.B

MANIFEST = dict(
    category='model_checking',
    text="Bounded exploration decided by the solver: (T) for each of the 17 readable types a 2-3 segment file whose later segments "
         "restate, re-use (matches-previous), carry over (no new object list) or omit (no metadata) the index, contiguous and "
         "interleaved, with properties of every property type, the byte order of each segment an independent choice; (H) the C02 "
         "2-segment inheritance sequences with a byte order per segment.  TdmsFile.read and TdmsFile.open (raw timestamps on/off) "
         "are compared bit-for-bit with the byte-order-agnostic oracle.",
    note="Trusted: z3 (enumerating structure here), sx engine, encoder/oracle (which writes big-endian segments with the swapped "
         "timestamp field order and little-endian toc mask as the format prescribes). DAQmx byte order is covered in C11.",
    technique="bounded symbolic execution (solver-driven case split over byte orders and encodings) of the real code + oracle comparison; replay gate",
)

META = dict(
    level='model_checking',
    functions=['reader.TdmsReader._read_lead_in', 'tdms_segment.TdmsSegment.read_segment_objects', 'tdms_segment.TdmsSegment._get_data_reader',
               'tdms_segment.TdmsSegmentObject.read_raw_data_index', 'tdms_segment.TdmsSegmentObject.read_values',
               'types.StructType.read', 'types.StructType.from_bytes', 'types.String.read', 'types.String.read_values',
               'types.TimeStamp.read', 'types.TimeStamp.from_bytes', 'channel_data.TimestampDataReceiver.append_data',
               'timestamp.TimestampArray'],
    bounds=dict(quick='(T) 17 types x 5 reuse kinds x 2 layouts x all byte-order assignments of 2-3 segments; (H) C02 2-segment '
                      'sequences x 4 byte-order pairs', thorough='(H) also 3-segment sequences (quick middle family) x 8 assignments'),
    outside=['DAQmx (C11)', 'files outside the families'],
    stubs=c04.META['stubs'],
    assumptions=['big-endian encoding rules of the TDMS format as implemented by the independent encoder'],
    buckets=dict(all=['mixed-order-file', 'reuse-across-orders', 'timestamp-big-endian', 'string-big-endian', 'properties-big-endian']),
    replays_per_signature=3,
    validate_samples=10,
)

REUSE = ['full', 'same', 'carried', 'nometa', 'nodata-then-same']
PROPS = [['pi', 3, -5], ['pu', 8, 2 ** 63 + 1], ['pd', 10, 1.25], ['ps', 0x20, 'grüß'], ['pt', 0x44, [86400, 2 ** 62]], ['pb', 0x21, True],
         ['pf', 9, -0.5], ['ph', 2, -300],
         # sign-carrying extremes: a timestamp before the 1904 epoch (negative seconds) with a fraction >= 2**63, INT64_MIN
         ['pn', 0x44, [-(2 ** 31) - 5, 2 ** 63 + 3]], ['pq', 4, -2 ** 63], ['pg', 10, -0.0]]


def tasks(tier, seed):
    ts = []
    for t in tm.ALL_READABLE:
        for reuse in REUSE:
            for inter in (False, True):
                if inter and t == 0x20:
                    continue
                ts.append(dict(kind='type', tcode=t, reuse=reuse, inter=inter))
    first = c02.seg_configs(True)
    for i0 in range(len(first)):
        ts.append(dict(kind='seq', S=2, c0=i0))
        if tier == 'thorough':
            for m in range(len(c02.MIDDLE_QUICK)):
                ts.append(dict(kind='seq', S=3, c0=i0, mid=m))
    return ts


def _type_shape(task, choose):
    t, reuse, inter = task['tcode'], task['reuse'], task['inter']
    tb = 4 if inter else 2
    nv = 2
    bigs = [bool(choose('big%d' % i, 2)) for i in range(3)]
    a0 = [A, 'full', t, nv, PROPS[:4]]
    b0 = [B, 'full', tb, nv if inter else 1, PROPS[4:]]
    segs = [s1.seg([['/', 'nodata', 0, 0, PROPS[2:6]], a0, b0], 2, inter=inter, big=bigs[0])]
    if reuse == 'full':
        segs.append(s1.seg([[A, 'full', t, nv, [PROPS[0][:2] + [7]]], [B, 'full', tb, nv if inter else 1, []]], 1, inter=inter, big=bigs[1]))
    elif reuse == 'same':
        segs.append(s1.seg([[A, 'same', t, 0, []], [B, 'same', tb, 0, [PROPS[4]]]], 2, inter=inter, big=bigs[1]))
    elif reuse == 'carried':
        segs.append(s1.seg([[B, 'same', tb, 0, []]], 1, inter=inter, big=bigs[1], newobj=False))
    elif reuse == 'nometa':
        segs.append(s1.seg([], 2, inter=inter, big=bigs[1], meta=False))
    else:
        segs.append(s1.seg([[A, 'nodata', t, 0, []], [B, 'same', tb, 0, []]], 1, inter=False, big=bigs[1], newobj=False))
        segs.append(s1.seg([[A, 'same', t, 0, []]], 1, inter=inter, big=bigs[2], newobj=False))
        return segs
    segs.append(s1.seg([[A, 'same', t, 0, []], [B, 'same', tb, 0, []]], 1, inter=inter, big=bigs[2]))
    return segs


def _shape_of(task, choose):
    if task['kind'] == 'type':
        return _type_shape(task, choose)
    sh = c02._shape_of(task, choose)
    for i, s in enumerate(sh):
        s['big'] = bool(choose('big%d' % i, 2))
    return sh


def check_file(shape, fail, raw_both=True):
    from nptdms import TdmsFile
    try:
        enc = s1.build(shape, allow_forbidden=False)
    except tm.Invalid:
        return 'invalid'
    for opener in (TdmsFile.read, TdmsFile.open):
        for raw_ts in ((False, True) if raw_both else (False,)):
            mode = opener.__name__
            try:
                tf = opener(io.BytesIO(enc.data), raw_timestamps=raw_ts)
            except Exception as e:
                fail('exception', exc=type(e).__name__, msg=str(e)[:100], mode=mode)
                return
            try:
                try:
                    mism = s1.compare_file(tf, enc, raw_ts)
                except Exception as e:
                    fail('exception', exc=type(e).__name__, msg=str(e)[:100], mode=mode)
                    return
                if mism:
                    fail('mismatch:' + mism[0]['what'], detail=mism[0], mode=mode, raw_ts=raw_ts)
            finally:
                tf.close()
    return 'ok'


def run_task(task):
    def fn(ctx):
        shape = _shape_of(task, ctx.choice)
        bigs = [bool(s.get('big')) for s in shape]
        ctx.info['byte_orders'] = bigs
        ctx.obligations += 1
        r = check_file(shape, lambda what, **kw: ctx.fail(what, byte_orders=bigs, **kw), raw_both=(task['kind'] == 'type'))
        if r == 'invalid':
            raise PathAbort()
        ctx.discharged += 1
        if len(set(bigs)) > 1:
            ctx.note('mixed-order-file')
            if task['kind'] == 'seq' or task.get('reuse') != 'full':
                ctx.note('reuse-across-orders')
        if any(bigs):
            ctx.note('properties-big-endian')
            if task.get('tcode') == 0x44:
                ctx.note('timestamp-big-endian')
            if task.get('tcode') == 0x20:
                ctx.note('string-big-endian')

    st = explore(fn, max_paths=20000, time_budget=1200)
    st.pop('wall_s', None)
    return st


def signature(c):
    what = c.get('what', '')
    if what == 'exception':
        what = 'exception:%s' % c.get('exc')
    t = c['task']
    if t['kind'] == 'type':
        return 'C15/type/%s/%s/%s' % (tm.TYPES[t['tcode']][0], t['reuse'], what)
    return 'C15/seq/%s' % what


def replay(art):
    task, inp = art['task'], art['inputs']
    shape = _shape_of(task, lambda name, n: inp.get(name, 0))
    out = []

    class Stop(Exception):
        pass

    def fail(what, **kw):
        out.append(dict(sig=signature(dict(task=task, what=what, exc=kw.get('exc'))), **kw))
        raise Stop()
    try:
        check_file(shape, fail, raw_both=(task['kind'] == 'type'))
    except Stop:
        return out[0]
    return None

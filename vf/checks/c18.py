"""C18 -- thermocouple conversions follow the NIST ITS-90 reference functions.

S3 harness: the real Thermocouple.celsius_to_mv / mv_to_celsius / ThermocoupleScaling.scale run
(through np.piecewise and polyval) on a symbolic real; obligations are decided by z3's nlsat."""
from fractions import Fraction
import numpy as np
import z3
from ..sx import explore, Inconclusive, Violation
from ..sxreal import nra_check_isolated, SymReal, Dual, RBool, rarr, rval, nra_check, EXP

TYPES = ['B', 'E', 'J', 'K', 'N', 'R', 'S', 'T']
CODES = dict(B=10047, E=10055, J=10072, K=10073, N=10077, R=10082, S=10085, T=10086)
# range on which ITS-90 defines the inverse functions (deg C) and tolerance used (deg C).  NIST states errors of at
# most 0.06 deg C for these approximations; 0.1 is used uniformly (assumption, listed in the evidence).
INVERSE_RANGE = dict(B=(250, 1820), E=(-200, 1000), J=(-210, 1200), K=(-200, 1372), N=(-200, 1300),
                     R=(-50, 1768.1), S=(-50, 1768.1), T=(-200, 400))
INV_TOL = Fraction(1, 10)              # fallback only
# NIST ITS-90 inverse-function error ranges (the larger magnitude of each stated range), per temperature interval of the inverse
# pieces (a sub-range touching two intervals gets the larger of the two)
INV_ERR = dict(
    B=[(250, 700, '0.03'), (700, 1820, '0.02')],
    E=[(-200, 0, '0.03'), (0, 1000, '0.02')],
    J=[(-210, 0, '0.05'), (0, 760, '0.04'), (760, 1200, '0.04')],
    K=[(-200, 0, '0.04'), (0, 500, '0.05'), (500, 1372, '0.06')],
    N=[(-200, 0, '0.03'), (0, 600, '0.03'), (600, 1300, '0.04')],
    R=[(-50, 250, '0.02'), (250, 1064.18, '0.005'), (1064.18, 1664.5, '0.001'), (1664.5, 1768.1, '0.002')],
    S=[(-50, 250, '0.02'), (250, 1064.18, '0.01'), (1064.18, 1664.5, '0.0002'), (1664.5, 1768.1, '0.002')],
    T=[(-200, 0, '0.04'), (0, 400, '0.03')],
)
GUARD = 2.0


NIST_ATTEMPT_S = 25                    # wall-clock seconds given to each NIST-tolerance query
SLACK = Fraction(105, 100)             # the published ranges are rounded (type K reaches 0.0408 where 0.04 is stated)
ENCLOSURE = Fraction(2, 100)           # deg C: width of the 1-degree rational enclosure of type K's exponential term, in temperature


def inv_tol(t, a, b, enclosed=False):
    tols = [Fraction(e) for (lo, hi, e) in INV_ERR[t] if (lo < b and hi > a) or (a == b and lo <= a <= hi)]
    tol = (max(tols) if tols else INV_TOL) * SLACK
    return tol + ENCLOSURE if enclosed else tol
MONOTONE_FROM = dict(B=50)           # type B has its minimum near 21 deg C; the standard increases from there
CONT_EPS = Fraction(1, 10 ** 4)      # mV: allowed jump at a piece boundary (NIST pieces agree to ~1e-6 mV)

MANIFEST = dict(
    category='other',
    text="Solver obligations (z3 nlsat, exact rational coefficients) over the real thermocouple code run on a symbolic real: "
         "per type and reference piece, polynomial identity with the independent NIST table of thermocouples_reference (type K: "
         "equal coefficient and argument of an uninterpreted exp); totality (the no-piece-applies path is infeasible for every "
         "real input); continuity defect at every breakpoint <= 1e-4 mV (forward) ; strict monotonicity via forward-mode derivative "
         "of the real code (exists T with f'(T) <= 0 unsat); inverse: exists T with |inv(fwd(T)) - T| > 0.1 C unsat on the ITS-90 "
         "inverse range; ThermocoupleScaling (built from NI_Scale properties, reading the raw data at index 0 and reading an earlier "
         "scale at index 1 with decoy properties under index 0) applies direction and the uV<->mV factor.",
    note="Over the reals: float64 rounding of the Horner evaluation, NaN inputs and the dense-grid part of the quantifier are outside. "
         "Type K above 0 C (exponential term): identity and totality are decided; monotonicity and the inverse tolerance are "
         "decided with exp enclosed between rational bounds on sub-intervals (1 degree for the inverse below 450 C, 10 degrees for monotonicity; endpoint argument: both are monotone in the enclosed term).  The inverse tolerances are the NIST ITS-90 error ranges per "
         "inverse piece (0.0002 to 0.06 C), transcribed in INV_ERR - an assumption of the check.",
    technique="symbolic execution of the real code on z3 reals / dual numbers + SMT (z3 nlsat, QF_NRA); replay gate",
)

META = dict(
    level='other',
    functions=['thermocouples.Thermocouple.celsius_to_mv', 'thermocouples.Thermocouple.mv_to_celsius',
               'thermocouples.Polynomial.apply', 'thermocouples.Range.within_range', 'scaling.ThermocoupleScaling.scale',
               'scaling.ThermocoupleScaling.from_properties'],
    bounds=dict(quick='all 8 types, every forward and inverse piece; reals (unbounded for totality, reference ranges otherwise); type K '
                      'inverse tolerance above 0 C: [450,1372] and six 10-degree windows below 450 C (1-degree exp enclosures)',
                thorough='same with type K inverse tolerance on all of [0,1372]'),
    outside=['float64 rounding of polynomial evaluation', 'NaN/inf inputs', 'the >= 1e5-point float grid of the quantifier'],
    stubs=['np.exp on a symbolic real: uninterpreted function (identity) / rational enclosure per sub-interval (type K)',
           'NumPy object arrays carry z3 reals through np.piecewise and polyval (Python-level code)',
           'warm-up: concrete float32 and float64 calls over every piece precede each obligation (state carried by the module-level type '
           'objects is part of the input)'],
    assumptions=['NIST ITS-90 tables as shipped in thermocouples_reference 0.20 (independent package)',
                 'NIST ITS-90 inverse error ranges per inverse piece (table INV_ERR, as published with the inverse coefficients), the larger '
                 'of two where a sub-range spans a boundary, times 1.05 for the rounding of the published figures (+0.02 C where type K is enclosed)'],
    buckets=dict(all=['forward-identity', 'total', 'continuity', 'monotone', 'inverse', 'inverse-nist-decided', 'scaling-direction', 'elementwise']),
    replays_per_signature=3,
    validate_samples=0,
    explanation="Each path of the real piecewise code ends in nlsat obligations; see MANIFEST text.",
)


def ref_table(t):
    import thermocouples_reference.source_NIST as src
    r = src.thermocouples[t]
    for name in dir(r):
        v = getattr(r, name)
        if hasattr(v, 'table'):
            return v.table
    raise RuntimeError('reference table not found')


def tasks(tier, seed):
    ts = []
    for t in TYPES:
        ts.append(dict(kind='forward', type=t))
        ts.append(dict(kind='total', type=t, direction='fwd'))
        ts.append(dict(kind='total', type=t, direction='inv'))
        ts.append(dict(kind='continuity', type=t))
        for d in ('fwd', 'inv'):
            ts.append(dict(kind='elementwise', type=t, direction=d, n=2))
        ts.append(dict(kind='elementwise', type=t, direction='fwd', n=3))
        tab = ref_table(t)
        for i in range(len(tab)):
            ts.append(dict(kind='monotone', type=t, piece=i))
        lo, hi = INVERSE_RANGE[t]
        # split the inverse range at the reference breakpoints (and into sub-ranges to keep queries small)
        cuts = sorted({lo, hi} | {x for row in tab for x in row[:2] if lo < x < hi} |
                      {x for (p, q, _) in INV_ERR[t] for x in (p, q) if lo < x < hi})
        for a, b in zip(cuts, cuts[1:]):
            has_exp = any(row[3] is not None and row[0] <= a and row[1] >= b for row in tab)
            if has_exp:
                # exp enclosures: 1-degree sub-intervals below 450 C (the Gaussian term matters there), coarser above.
                # Each 1-degree obligation costs seconds: the quick tier decides two 10-degree windows (at 0 C and
                # around the centre of the Gaussian term) plus everything above 450 C; the thorough tier all of it.
                if not any(x.get('kind') == 'invmono' and x['type'] == t for x in ts):
                    ts.append(dict(kind='invmono', type=t, vlo=-0.5, vhi=55.0))
                # 1-degree exp enclosures: the quick tier decides six 10-degree windows below 450 C, the thorough tier all 45
                for x in (list(range(int(a), 450, 10)) if tier == 'thorough' else [0, 60, 120, 190, 300, 440]):
                    if a <= x < b and x < 450:
                        ts.append(dict(kind='inverse', type=t, lo=x, hi=min(x + 10, b), nsub=10))
                edges = [x for x in range(max(450, int(a)), int(b), 240)] + [b]
                for x, y in zip(edges, edges[1:]):
                    if y > 450 and x < y:
                        ts.append(dict(kind='inverse', type=t, lo=max(x, 450) if a < 450 else x, hi=y, nsub=8))
                continue
            n = 4 if (b - a) > 400 else 2
            for k in range(n):
                ts.append(dict(kind='inverse', type=t, lo=a + (b - a) * k / n, hi=a + (b - a) * (k + 1) / n))
        ts.append(dict(kind='scaling', type=t, direction=1))
        ts.append(dict(kind='scaling', type=t, direction=0))
        # the same with the scale at index 1 fed by scale 0 instead of the raw data: the microvolt convention does not depend on
        # where the input comes from (decoy thermocouple properties under index 0)
        ts.append(dict(kind='scaling', type=t, direction=1, src=0))
        ts.append(dict(kind='scaling', type=t, direction=0, src=0))
    ts.sort(key=lambda x: 0 if x['kind'] == 'inverse' else 1)
    return ts


def _tc(t):
    import nptdms.thermocouples as tc
    return getattr(tc, 'type_' + t.lower())


def _warmup(tc, tab):
    """The conversions must not depend on what was converted before (the type objects are module-level singletons):
    every obligation is decided AFTER concrete calls with float32 and then float64 arrays reaching every piece of both
    directions.  On a stateless implementation this changes nothing."""
    pts = []
    for (tmin, tmax, coefs, ec) in tab:
        pts += [tmin + (tmax - tmin) * k / 4.0 for k in (1, 2, 3)]
    for dt in (np.float32, np.float64):
        mv = tc.celsius_to_mv(np.array(pts, dtype=dt))
        tc.mv_to_celsius(np.asarray(mv, dtype=dt))


def _poly(coefs_high_to_low, x):
    r = z3.RealVal(0)
    for c in coefs_high_to_low:
        r = r * x + rval(float(c))
    return r


def _is_nan(v):
    return isinstance(v, float) and v != v


def _nra(ctx, constraints, what):
    ctx.obligations += 1
    ctx.nqueries += 1
    r, m = nra_check(list(ctx.pc) + list(constraints), timeout_ms=180000)
    if r == z3.unsat:
        ctx.discharged += 1
        return None
    if r == z3.unknown:
        raise Inconclusive('%s undecided' % what)
    return m


def _inverse_within(ctx, d, tol, T, t_name=''):
    """(1) the flat 0.1 deg C obligation, as always (quick for nlsat: large margin);  (2) the NIST tolerance of the piece, attempted
    in an isolated child under a hard wall-clock limit: unsat -> decided, sat -> counterexample, no answer in time -> recorded as a
    note (the margin of some pieces is a few 1e-3 deg C on a degree ~100 composition), never an error.
    Returns None or dict(T=..., error=..., tolerance=...)."""
    m = _nra(ctx, [z3.Or(d > _fx(INV_TOL), d < -_fx(INV_TOL))], 'inverse')
    if m is not None:
        return dict(T=str(m.eval(T, True)), error=str(m.eval(d, True)), tolerance=str(INV_TOL))
    if tol >= INV_TOL:
        return None
    ctx.nqueries += 1
    r, vals = nra_check_isolated(list(ctx.pc) + [z3.Or(d > _fx(tol), d < -_fx(tol))], dict(T=T, d=d), timeout_s=NIST_ATTEMPT_S)
    if r == 'unsat':
        ctx.note('inverse-nist-decided')
        return None
    if r == 'sat':
        return dict(T=vals['T'], error=vals['d'], tolerance=str(tol))
    ctx.note('inverse-nist-undecided')
    return None


def _fx(x):
    """exact value: floats are taken at their binary value (as the code under test sees them)"""
    if isinstance(x, float):
        f = Fraction(x)
    elif isinstance(x, Fraction):
        f = x
    else:
        f = Fraction(str(x))
    return z3.RealVal(str(f))


def _exp_enclosure(ctx, expr_terms, T, lo, hi, a1, a2):
    """Replace exp(a1*(T-a2)^2) (a1 < 0) by a fresh variable bounded on [lo, hi]."""
    import math
    d = sorted([abs(lo - a2), abs(hi - a2)])
    dmin = 0.0 if lo <= a2 <= hi else d[0]
    e_hi = math.exp(a1 * dmin * dmin) * (1 + 1e-12)
    e_lo = math.exp(a1 * d[1] * d[1]) * (1 - 1e-12)
    return Fraction(e_lo), Fraction(e_hi)


def run_task(task):
    t = task['type']
    tc = _tc(t)
    kind = task['kind']
    tab = ref_table(t)

    def forward(ctx):
        # one exploration per reference piece: T inside the open piece interval
        for (tmin, tmax, coefs, ec) in tab:
            pass
        i = ctx.choice('piece', len(tab))
        tmin, tmax, coefs, ec = tab[i]
        T = z3.Real('T')
        ctx.inputs['T'] = T
        ctx.add(z3.And(T > _fx(tmin), T < _fx(tmax)))
        out = tc.celsius_to_mv(rarr([T]))[0]
        if not isinstance(out, SymReal):
            ctx.fail('forward-not-total', got=repr(out), piece=i)
        ref = _poly(coefs, T)
        if ec is not None:
            ref = ref + rval(float(ec[0])) * EXP(rval(float(ec[1])) * (T - rval(float(ec[2]))) * (T - rval(float(ec[2]))))
        m = _nra(ctx, [out.e != ref], 'forward identity')
        if m is not None:
            raise Violation(dict(what='forward-differs-from-NIST', inputs=dict(T=str(m.eval(T, True)), piece=i), type=t))
        ctx.note('forward-identity')

    def total(ctx):
        x = z3.Real('x')
        ctx.inputs['x'] = x
        f = tc.celsius_to_mv if task['direction'] == 'fwd' else tc.mv_to_celsius
        out = f(rarr([x]))[0]
        ctx.obligations += 1
        if not isinstance(out, SymReal):
            m = ctx.get_model()
            raise Violation(dict(what='not-total', inputs=dict(x=str(m.eval(x, True))), type=t, direction=task['direction'],
                                 got=repr(out)))
        ctx.discharged += 1
        ctx.note('total')

    def continuity(ctx):
        fwd = ctx.choice('fwd', 2)
        if fwd:
            bps = [row[0] for row in tab[1:]]
            f = tc.celsius_to_mv
            eps, delta = CONT_EPS, Fraction(1, 10 ** 6)
        else:
            # inverse breakpoints are probed through the public function: find them as the points where
            # the piece selected changes; here: check |inv(v) - inv(v')| small for v' -> v from both sides at
            # every voltage that is a forward image of a reference breakpoint is not meaningful; inverse
            # continuity is covered by the inverse tolerance obligation instead.
            return
        k = ctx.choice('bp', len(bps)) if bps else None
        if k is None:
            return
        b = bps[k]
        side = ctx.choice('side', 2)
        T = z3.Real('T')
        ctx.inputs['T'] = T
        if side == 0:
            ctx.add(z3.And(T > _fx(b) - _fx(delta), T < _fx(b)))
        else:
            ctx.add(z3.And(T > _fx(b), T < _fx(b) + _fx(delta)))
        a = f(rarr([T]))[0]
        at = f(rarr([_fx(b)]))[0]
        if not isinstance(a, SymReal) or not isinstance(at, SymReal):
            ctx.fail('not-total', got=repr((a, at)))
        d = a.e - at.e
        cons = []
        ecs = [row[3] for row in tab if row[3] is not None]
        if ecs and _exp_apps(d):
            # exp(a1*(x-a2)^2) for x within delta of the breakpoint: rational enclosure, one variable per application
            e_lo, e_hi = _exp_enclosure(ctx, None, T, float(b) - float(delta), float(b) + float(delta), float(ecs[0][1]), float(ecs[0][2]))
            subs = []
            for j, app in enumerate(_exp_apps(d)):
                Ej = z3.Real('E%d' % j)
                cons += [Ej >= _fx(e_lo), Ej <= _fx(e_hi)]
                subs.append((app, Ej))
            d = z3.substitute(d, *subs)
        m = _nra(ctx, cons + [z3.Or(d > _fx(eps), d < -_fx(eps))], 'continuity')
        if m is not None:
            raise Violation(dict(what='discontinuity', inputs=dict(T=str(m.eval(T, True)), breakpoint=b), type=t))
        ctx.note('continuity')

    def monotone(ctx):
        tmin, tmax, coefs, ec = tab[task['piece']]
        lo = max(tmin, MONOTONE_FROM.get(t, tmin))
        if lo >= tmax:
            ctx.note('monotone')
            return
        subs = [(lo, tmax)]
        if ec is not None:
            step = 10.0
            subs, a = [], lo
            while a < tmax:
                subs.append((a, min(a + step, tmax)))
                a += step
        for (a, b) in subs:
            T = z3.Real('T')
            cons = [T > _fx(a), T < _fx(b)]
            out = tc.celsius_to_mv(rarr([Dual(T, z3.RealVal(1))]))[0]
            ders = [out.d]
            if ec is not None:
                # the derivative is linear in E = exp(a1 (T-a2)^2) in [e_lo, e_hi]: its minimum over E is at an endpoint
                e_lo, e_hi = _exp_enclosure(ctx, None, T, a, b, float(ec[1]), float(ec[2]))
                apps = _exp_apps(out.d)
                ders = [z3.substitute(out.d, *[(x, _fx(e)) for x in apps]) for e in (e_lo, e_hi)]
            for der in ders:
                m = _nra(ctx, cons + [der <= 0], 'monotone')
                if m is not None:
                    raise Violation(dict(what='not-increasing', inputs=dict(T=str(m.eval(T, True)), piece=task['piece']), type=t))
        ctx.note('monotone')

    def inverse(ctx):
        lo, hi = task['lo'], task['hi']
        T = z3.Real('T')
        ctx.inputs['T'] = T
        ctx.add(z3.And(T >= _fx(lo), T <= _fx(hi)))
        has_exp = any(row[3] is not None and row[0] < hi and row[1] > lo for row in tab)
        if any(row[3] is not None and row[0] == hi for row in tab):
            ctx.add(T < _fx(hi))        # the boundary point itself belongs to the piece with the exponential term
        if not has_exp:
            v = tc.celsius_to_mv(rarr([T]))[0]
            if not isinstance(v, SymReal):
                ctx.fail('not-total', got=repr(v))
            back = tc.mv_to_celsius(rarr([v]))[0]
            if not isinstance(back, SymReal):
                ctx.fail('not-total', got=repr(back))
            d = back.e - T
            tol = inv_tol(t, lo, hi)
            m = _inverse_within(ctx, d, tol, T, t)
            if m is not None:
                raise Violation(dict(what='inverse-error', inputs=dict(T=m['T']), type=t, error=m['error'], tolerance=m['tolerance']))
        else:
            # exponential term a0*exp(a1 (T-a2)^2), a1 < 0: on a sub-interval E lies in [e_lo, e_hi]; the inverse
            # polynomial is increasing in the voltage (lemma proved below on the piece's voltage range), so
            # inv(p(T) + a0*E) lies between the values at E = e_lo and E = e_hi: two one-variable obligations.
            row = [r for r in tab if r[3] is not None][0]
            a1, a2 = float(row[3][1]), float(row[3][2])
            nsub = task.get('nsub', 8)
            k = ctx.choice('sub', nsub)
            a = lo + (hi - lo) * k / nsub
            b = lo + (hi - lo) * (k + 1) / nsub
            ctx.add(z3.And(T >= _fx(a), T <= _fx(b)))
            e_lo, e_hi = _exp_enclosure(ctx, None, T, a, b, a1, a2)
            v = tc.celsius_to_mv(rarr([T]))[0]
            if not isinstance(v, SymReal):
                ctx.fail('not-total', got=repr(v))
            apps = _exp_apps(v.e)
            for e_c in (e_lo, e_hi):
                ve = z3.substitute(v.e, *[(x, _fx(e_c)) for x in apps]) if apps else v.e
                back = tc.mv_to_celsius(rarr([SymReal(ve)]))[0]
                if not isinstance(back, SymReal):
                    ctx.fail('not-total', got=repr(back))
                d = back.e - T
                tol = inv_tol(t, a, b, enclosed=True)
                m = _inverse_within(ctx, d, tol, T, t)
                if m is not None:
                    raise Violation(dict(what='inverse-error', inputs=dict(T=m['T']), type=t, error=m['error'], tolerance=m['tolerance'],
                                         note='exp enclosed: candidate only'))
        ctx.note('inverse')

    def invmono(ctx):
        # lemma used by the type K endpoint argument: the inverse function is increasing in the voltage on the whole
        # voltage range of the type (one-variable obligation per inverse piece)
        vv = z3.Real('v')
        ctx.inputs['v'] = vv
        ctx.add(z3.And(vv >= _fx(task['vlo']), vv <= _fx(task['vhi'])))
        dq = tc.mv_to_celsius(rarr([Dual(vv, z3.RealVal(1))]))[0]
        m = _nra(ctx, [dq.d <= 0], 'inverse monotone lemma')
        if m is not None:
            raise Violation(dict(what='inverse-not-increasing', inputs=dict(v=str(m.eval(vv, True))), type=t))
        ctx.note('inverse')

    def elementwise(ctx):
        # a conversion applied to an array equals the conversion applied to each element (2 and 3 elements, any order)
        f = tc.celsius_to_mv if task['direction'] == 'fwd' else tc.mv_to_celsius
        n = task['n']
        xs = [z3.Real('x%d' % i) for i in range(n)]
        for i, x in enumerate(xs):
            ctx.inputs['x%d' % i] = x
        arr = f(rarr(xs))
        ecs = [row[3] for row in tab if row[3] is not None]
        for i, x in enumerate(xs):
            one = f(rarr([x]))[0]
            if not isinstance(arr[i], SymReal) or not isinstance(one, SymReal):
                m = ctx.get_model()
                raise Violation(dict(what='not-total', inputs={('x%d' % j): str(m.eval(v, True)) for j, v in enumerate(xs)}, type=t))
            m = _nra(ctx, [arr[i].e != one.e], 'elementwise')
            if m is not None:
                raise Violation(dict(what='array-differs-from-elementwise', inputs={('x%d' % j): str(m.eval(v, True)) for j, v in enumerate(xs)},
                                     type=t, element=i, direction=task['direction']))
        ctx.note('elementwise')

    def scaling(ctx):
        from nptdms.scaling import ThermocoupleScaling
        x = z3.Real('x')
        ctx.inputs['x'] = x
        sc = _scaling_from_props(ThermocoupleScaling, t, task)
        out = sc.scale(rarr([x]))[0]
        if task['direction'] == 1:
            ref = tc.celsius_to_mv(rarr([x]))[0]
            if not isinstance(out, SymReal) or not isinstance(ref, SymReal):
                ctx.fail('not-total', got=repr(out))
            bad = out.e != 1000 * ref.e
        else:
            ref = tc.mv_to_celsius(rarr([SymReal(x / 1000)]))[0]
            if not isinstance(out, SymReal) or not isinstance(ref, SymReal):
                ctx.fail('not-total', got=repr(out))
            bad = out.e != ref.e
        m = _nra(ctx, [bad], 'scaling direction')
        if m is not None:
            raise Violation(dict(what='scaling-direction-or-unit', inputs=dict(x=str(m.eval(x, True))), type=t,
                                 direction=task['direction']))
        ctx.note('scaling-direction')

    fn0 = dict(forward=forward, total=total, continuity=continuity, monotone=monotone, inverse=inverse, scaling=scaling, invmono=invmono,
               elementwise=elementwise)[kind]

    def fn(ctx):
        _warmup(tc, tab)
        fn0(ctx)
    st = explore(fn, max_paths=2000, time_budget=1500)
    st.pop('wall_s', None)
    return st


def _exp_apps(e):
    out, seen, stack = [], set(), [e]
    while stack:
        x = stack.pop()
        if x.get_id() in seen:
            continue
        seen.add(x.get_id())
        if z3.is_app(x) and x.decl().name() == 'exp':
            out.append(x)
            continue
        stack.extend(x.children())
    return out


def signature(c):
    return 'C18/%s/%s/%s' % (c['task']['type'], c['task']['kind'] + ('@after-scale' if c['task'].get('src') is not None else ''),
                             c.get('what', ''))


def _scaling_from_props(ThermocoupleScaling, t, task):
    """ThermocoupleScaling as TdmsChannel builds it: from NI_Scale[k] properties; k = 0 reading the raw data, or k = 1 reading
    scale 0 (task['src'] = 0) with another type / the other direction as decoy under index 0."""
    src = task.get('src')
    if src is None:
        return ThermocoupleScaling.from_properties({
            'NI_Scale[0]_Thermocouple_Thermocouple_Type': CODES[t],
            'NI_Scale[0]_Thermocouple_Scaling_Direction': task['direction'],
            'NI_Scale[0]_Thermocouple_Input_Source': 0xFFFFFFFF}, 0)
    other = [c for c in CODES.values() if c != CODES[t]][0]
    return ThermocoupleScaling.from_properties({
        'NI_Scale[0]_Thermocouple_Thermocouple_Type': other,
        'NI_Scale[0]_Thermocouple_Scaling_Direction': 1 - task['direction'],
        'NI_Scale[0]_Thermocouple_Input_Source': 0xFFFFFFFF,
        'NI_Scale[1]_Thermocouple_Thermocouple_Type': CODES[t],
        'NI_Scale[1]_Thermocouple_Scaling_Direction': task['direction'],
        'NI_Scale[1]_Thermocouple_Input_Source': src}, 1)


def _f(s):
    s = str(s)
    if s.endswith('?'):
        s = s[:-1]
    return float(Fraction(s)) if '/' in s else float(s)


def replay(art):
    """Concrete confirmation on the plain package with float inputs near the model values."""
    import nptdms.thermocouples as tcm
    from nptdms.scaling import ThermocoupleScaling
    task, inp = art['task'], art['inputs']
    t = task['type']
    tc = getattr(tcm, 'type_' + t.lower())
    tab = ref_table(t)
    what = art.get('what')
    kind = task['kind']
    _warmup(tc, tab)

    def ref_fwd(T):
        for (tmin, tmax, coefs, ec) in tab:
            if tmin <= T <= tmax:
                v = float(np.polyval(coefs, T))
                if ec is not None:
                    v += ec[0] * np.exp(ec[1] * (T - ec[2]) ** 2)
                return v
        return None
    if kind in ('forward', 'continuity', 'monotone', 'inverse'):
        T = _f(inp['T'])
        cands = [T + d for d in (0.0, 1e-9, -1e-9, 1e-6, -1e-6, 1e-3, -1e-3)]
        for x in cands:
            got = float(tc.celsius_to_mv(np.array([x]))[0])
            ref = ref_fwd(x)
            if got != got:
                return dict(sig=signature(dict(task=task, what='not-total')), T=x, got='nan')
            if kind == 'forward' and ref is not None and abs(got - ref) > 1e-9 * max(1.0, abs(ref)):
                return dict(sig=signature(dict(task=task, what=what)), T=x, got=got, nist=ref)
            if kind == 'inverse':
                back = float(tc.mv_to_celsius(np.array([got]))[0])
                if not abs(back - x) <= float(inv_tol(t, x, x)) * 1.0000001:
                    return dict(sig=signature(dict(task=task, what=what)), T=x, back=back)
            if kind == 'monotone':
                h = 1e-4
                a, b = float(tc.celsius_to_mv(np.array([x]))[0]), float(tc.celsius_to_mv(np.array([x + h]))[0])
                if not b > a:
                    return dict(sig=signature(dict(task=task, what=what)), T=x, f=a, f_next=b)
            if kind == 'continuity':
                bp = inp.get('breakpoint')
                if bp is not None:
                    lo, hi = np.nextafter(bp, -np.inf), bp
                    a, b = float(tc.celsius_to_mv(np.array([lo]))[0]), float(tc.celsius_to_mv(np.array([hi]))[0])
                    if not abs(a - b) <= float(CONT_EPS) * 1.01:
                        return dict(sig=signature(dict(task=task, what=what)), breakpoint=bp, below=a, at=b)
        return None
    if kind == 'elementwise':
        f = tc.celsius_to_mv if task['direction'] == 'fwd' else tc.mv_to_celsius
        xs = [_f(inp['x%d' % i]) for i in range(task['n'])]
        arr = f(np.array(xs))
        for i, x in enumerate(xs):
            one = float(f(np.array([x]))[0])
            a = float(arr[i])
            if not (a == one or (a != a and one != one)):
                return dict(sig=signature(dict(task=task, what=what)), xs=xs, element=i, array=a, single=one)
        return None
    if kind == 'total':
        x = _f(inp['x'])
        f = tc.celsius_to_mv if task['direction'] == 'fwd' else tc.mv_to_celsius
        for d in (0.0, 1e-12, -1e-12, 1e-9, -1e-9, 1e-6, -1e-6):
            got = float(f(np.array([x + d]))[0])
            if got != got:
                return dict(sig=signature(dict(task=task, what='not-total')), x=x + d, got='nan')
        return None
    if kind == 'scaling':
        x = _f(inp['x'])
        sc = _scaling_from_props(ThermocoupleScaling, t, task)
        got = float(sc.scale(np.array([x]))[0])
        exp = 1000.0 * float(tc.celsius_to_mv(np.array([x]))[0]) if task['direction'] == 1 else float(tc.mv_to_celsius(np.array([x / 1000.0]))[0])
        if not (abs(got - exp) <= 1e-9 * max(1.0, abs(exp))):
            return dict(sig=signature(dict(task=task, what=what)), x=x, got=got, expected=exp)
        return None
    return None

"""C10 -- defragmenting a file preserves its content.

S1/S2: source files from the independent encoder (fragmented channels, channels without data
type, property-only objects, empty channels, strings, timestamps, scaling properties) with the
raw timestamp and integer property values SYMBOLIC (fields of a SymStream); the instrumented
TdmsWriter.defragment copies into a sink; the copy is read back (instrumented) and compared with
the oracle of the source."""
import io
import struct
import z3
from .. import s1, tdmsmodel as tm
from ..sx import explore, ex, SymInt, PathAbort, Inconclusive
from ..stream import Builder, SymStream, SinkStream
from . import c04

A, B, C = c04.A, c04.B, "/'g'/'c'"

MANIFEST = dict(
    category='model_checking',
    text="Bounded symbolic execution of TdmsWriter.defragment (whole reader + whole writer) on source files of a stated family - "
         "channels fragmented over 2-3 segments, channel without data type, property-only group, empty numeric / string / timestamp "
         "channels, strings, timestamps (both byte orders), scaling properties, interleaved and big-endian sources - whose raw "
         "timestamp property (seconds int64, fractions uint64) and integer property values are symbolic 64-bit fields: the copy is "
         "read back and must have the same groups, channels, properties (timestamps bit-exact, integers equal for every value), "
         "lengths, raw values and - when a channel has values - data type; scaled data of the copy equals scaled data of the source.",
    note="Trusted: z3, sx engine, struct model, encoder/oracle, SinkStream. Channel raw values are concrete planted bytes. DAQmx "
         "sources are outside (as the property says). Destination is a stream; index file on/off.",
    technique="bounded symbolic execution of reader+writer+reader on symbolic property fields + SMT (z3, QF_LIA) per path; replay gate",
)

META = dict(
    level='model_checking',
    functions=['writer.TdmsWriter.defragment', 'tdms.TdmsChannel.read_data (scaled=False)', 'writer._to_tdms_value',
               'timestamp.TdmsTimestamp.bytes', 'writer.write_values', 'writer.ChannelObject.data_type', 'writer.object_data_size',
               'writer.TdmsSegment.raw_data_index', 'tdms_segment.read_property', 'types.TimeStamp.read'],
    bounds=dict(quick='14 source shapes x index on/off; raw timestamp and int64/uint64/int32 property values symbolic over their '
                      'whole range', thorough='same plus the C02 quick sequence family as sources'),
    outside=['DAQmx sources', 'destination given as a path', 'numeric channel contents beyond planted values'],
    stubs=['SymStream with symbolic property fields, SinkStream', 'struct model'] + c04.META['stubs'],
    assumptions=['a copy may lose the data type of a channel that holds no value (as the property allows)'],
    buckets=dict(all=['raw-timestamp-passthrough', 'int-property-passthrough', 'channel-without-type', 'empty-channel', 'fragmented',
                      'scaled-equal', 'with-index']),
    replays_per_signature=3,
    validate_samples=8,
)

SCALE = [['NI_Number_Of_Scales', 7, 1], ['NI_Scale[0]_Scale_Type', 0x20, 'Linear'], ['NI_Scale[0]_Linear_Slope', 10, 0.5],
         ['NI_Scale[0]_Linear_Y_Intercept', 10, 3.0], ['NI_Scale[0]_Linear_Input_Source', 7, 0xFFFFFFFF]]
SYM_PROPS = [['sym_ts', 0x44, [1000, 2 ** 63]], ['sym_i64', 4, -5], ['sym_u64', 8, 7], ['sym_i32', 3, 9]]


def shapes(tier):
    G = "/'g'"
    out = []
    root = ['/', 'nodata', 0, 0, SYM_PROPS[:2] + [['name', 0x20, 'fïle']]]
    grp = [G, 'nodata', 0, 0, SYM_PROPS[2:] + [['gp', 10, 1.5]]]
    # fragmented numeric channels with scaling, string channel
    out.append([s1.seg([root, grp, [A, 'full', 3, 2, SCALE + [SYM_PROPS[0]]], [B, 'full', 0x20, 2]], 2),
                s1.seg([[A, 'full', 3, 1], [B, 'full', 0x20, 1]], 1), s1.seg([[A, 'same', 3, 0]], 3, newobj=False)])
    # channel without data type + property-only second group + empty numeric channel
    out.append([s1.seg([root, grp, [A, 'full', 10, 2], [B, 'nodata', 0, 0, [['note', 0x20, 'no data']]], [C, 'full', 9, 0],
                        ["/'empty'", 'nodata', 0, 0, [['k', 3, 1]]]], 1), s1.seg([[A, 'full', 10, 1]], 2)])
    # timestamps little/big endian, bool, interleaved
    out.append([s1.seg([root, [A, 'full', 0x44, 2], [B, 'full', 0x21, 3]], 1, big=True), s1.seg([[A, 'full', 0x44, 1], [B, 'full', 0x21, 1]], 2)])
    out.append([s1.seg([grp, [A, 'full', 4, 2], [B, 'full', 10, 2]], 2, inter=True), s1.seg([[A, 'full', 4, 1], [B, 'full', 10, 1]], 1, inter=True)])
    # empty string and empty timestamp channels
    out.append([s1.seg([root, [A, 'full', 0x20, 0], [B, 'full', 0x44, 0], [C, 'full', 3, 2]], 1)])
    # non-ASCII string data (byte length != character count) with more objects written after it in the copy
    out.append([s1.seg([root, [A, 'full', 0x20, 2, [], [['é°µ', '日本語テキスト'], ['a°b', 'µµµµµµµµµµµx']]], [B, 'full', 3, 2], [C, 'full', 10, 1]], 2),
                s1.seg([[A, 'full', 0x20, 1, [], [['ΩΩΩΩΩΩΩΩΩΩΩΩ']]], [B, 'full', 3, 1]], 1)])
    # strings containing NUL characters (fixed-width NumPy string arrays strip trailing NULs)
    out.append([s1.seg([root, [A, 'full', 0x20, 3, [], [['DEV1\x00\x00', '\x00', 'a\x00b'], ['\x00\x00x', 'pla', 'end\x00']]], [B, 'full', 3, 1]], 2)])
    # every fixed-width type once
    for t in (1, 2, 5, 6, 7, 8, 9, 0x19, 0x1A, 0x08000c, 0x10000d):
        out.append([s1.seg([[A, 'full', t, 2, [SYM_PROPS[0]]], [B, 'full', 3, 1]], 1), s1.seg([[A, 'full', t, 1]], 2)])
    # groups known only through channels, group without properties and without channels
    out.append([s1.seg([[A, 'full', 3, 1], ["/'h'/'x'", 'full', 2, 2], ["/'lonely'", 'nodata', 0, 0, []]], 1)])
    # raw data one element past the usual 8 KiB / 64 KiB I/O block sizes, followed by more segments
    out.append([s1.seg([[A, 'full', 10, 8193], [B, 'full', 2, 4097]], 1), s1.seg([[A, 'full', 10, 2], [C, 'full', 3, 1]], 1)])
    if tier == 'thorough':
        from . import c02
        first, rest = c02.seg_configs(True), c02.seg_configs(False)
        for i0 in range(0, len(first), 3):
            for i1 in range(0, len(rest), 9):
                out.append(c02.build_shape([first[i0], rest[i1], rest[(i1 * 7 + i0) % len(rest)]]))
    from .. import shapes as _shapes
    out += _shapes.random_family(53, 15 if tier == 'quick' else 120, need_a=False, allow_trunc=False)
    good = []
    for sh in out:
        try:
            s1.build(sh)
            good.append(sh)
        except tm.Invalid:
            pass
    return good


def tasks(tier, seed):
    ts = []
    for i, sh in enumerate(shapes(tier)):
        for index in (False, True):
            ts.append(dict(shape=sh, sid=i, index=index))
    return ts


def find_sym_fields(enc_data, shape):
    """byte offsets of the values of the SYM_PROPS properties inside the encoded file (little or big endian per segment)"""
    out = []
    for (name, tcode, _) in SYM_PROPS:
        nb = name.encode()
        pat = struct.pack('<L', len(nb)) + nb
        patb = struct.pack('>L', len(nb)) + nb
        for p, big in ((pat, False), (patb, True)):
            start = 0
            while True:
                k = enc_data.find(p, start)
                if k < 0:
                    break
                tpos = k + len(p)
                tc = int.from_bytes(enc_data[tpos:tpos + 4], 'big' if big else 'little')
                if tc == tcode:
                    out.append(dict(name=name, tcode=tcode, pos=tpos + 4, big=big))
                start = k + 1
    return sorted(out, key=lambda d: d['pos'])


def symbolic_source(ctx, enc, fields):
    """SymStream of the source file with the SYM_PROPS values replaced by symbolic fields; returns (stream, {name: terms})"""
    b = Builder()
    pos = 0
    vals = {}
    data = enc.data
    for f in fields:
        b.raw(data[pos:f['pos']])
        e = '>' if f['big'] else '<'
        if f['tcode'] == 0x44:
            if f['name'] not in vals:
                sec = ctx.int('ts_seconds', -2 ** 63, 2 ** 63 - 1)
                frac = ctx.int('ts_fractions', 0, 2 ** 64 - 1)
                vals[f['name']] = (sec, frac)
            sec, frac = vals[f['name']]
            usec = SymInt.mk(z3.If(sec.e < 0, sec.e + 2 ** 64, sec.e))
            if f['big']:
                b.field(usec, 8, '>')
                b.field(frac, 8, '>')
            else:
                b.field(frac, 8, '<')
                b.field(usec, 8, '<')
            pos = f['pos'] + 16
        else:
            w = tm.TYPES[f['tcode']][1]
            signed = tm.TYPES[f['tcode']][2].islower()
            if f['name'] not in vals:
                lo, hi = (-(2 ** (8 * w - 1)), 2 ** (8 * w - 1) - 1) if signed else (0, 2 ** (8 * w) - 1)
                vals[f['name']] = ctx.int('p_' + f['name'], lo, hi)
            v = vals[f['name']]
            b.field(SymInt.mk(z3.If(v.e < 0, v.e + 2 ** (8 * w), v.e)) if signed else v, w, e)
            pos = f['pos'] + w
    b.raw(data[pos:])
    return SymStream(b.regions), vals


def compare_copy(tf, enc, vals, fail, prove):
    """copy (read with raw_timestamps=True) vs. oracle of the source; symbolic properties compared by the solver"""
    import numpy as np
    groups, chans = tm.expected_hierarchy(enc)
    if [g.name for g in tf.groups()] != groups:
        fail('groups', got=[g.name for g in tf.groups()], expected=groups)
    objs = [('/', tf.properties)]
    for g in tf.groups():
        objs.append((tm.make_path(g.name), g.properties))
        if [c.name for c in g.channels()] != chans.get(g.name, []):
            fail('channels', group=g.name, got=[c.name for c in g.channels()], expected=chans.get(g.name, []))
        for c in g.channels():
            objs.append((tm.make_path(g.name, c.name), c.properties))
    for path, props in objs:
        exp = enc.props.get(path, {})
        if sorted(props.keys()) != sorted(exp.keys()):
            fail('property-names', object=path, got=sorted(props.keys()), expected=sorted(exp.keys()))
        for name, (tcode, value) in exp.items():
            got = props[name]
            if name in vals:
                if tcode == 0x44:
                    sec, frac = vals[name]
                    if not (hasattr(got, 'seconds') and hasattr(got, 'second_fractions')):
                        fail('timestamp-property-type', object=path, name=name, got=repr(got))
                    prove(z3.And(ex(got.seconds) == ex(sec), ex(got.second_fractions) == ex(frac)), 'raw-timestamp-property', object=path, name=name)
                else:
                    prove(ex(got) == ex(vals[name]), 'int-property', object=path, name=name)
            else:
                if s1.prop_canon_got(got) != s1.prop_canon_expected(tcode, tuple(value) if isinstance(value, list) else value, True):
                    fail('property', object=path, name=name, got=repr(got), expected=repr(value))
    for g in tf.groups():
        for c in g.channels():
            path = tm.make_path(g.name, c.name)
            ech = enc.channels[path]
            full = s1.exp_canon(ech, True) if ech.tcode is not None else []
            if len(c) != len(full):
                fail('length', channel=path, got=len(c), expected=len(full))
            if not full:
                continue
            raw = c.read_data(scaled=False)
            got = s1.got_canon(raw, ech.tcode, True)
            if got != full:
                fail('raw-values', channel=path, got=[s1.show(x) for x in got][:6], expected=[s1.show(x) for x in full][:6])
            if c.data_type is None or c.data_type.enum_value != (ech.tcode if ech.tcode not in (0x19, 0x1A) else c.data_type.enum_value):
                fail('data-type', channel=path, got=None if c.data_type is None else c.data_type.enum_value, expected=ech.tcode)
            if ech.tcode in (0x19, 0x1A) and c.data_type.enum_value not in (ech.tcode, ech.tcode - 0x10):
                fail('data-type', channel=path, got=c.data_type.enum_value, expected=ech.tcode)


def run_task(task):
    from nptdms import TdmsFile
    from nptdms.writer import TdmsWriter
    enc = s1.build(task['shape'])
    fields = find_sym_fields(enc.data, task['shape'])

    def fn(ctx):
        src, vals = symbolic_source(ctx, enc, fields)
        dst = SinkStream()
        idx = SinkStream() if task['index'] else False
        try:
            TdmsWriter.defragment(src, dst, index_file=idx)
        except (PathAbort, Inconclusive):
            raise
        except Exception as e:
            ctx.fail('defragment-exception', exc=type(e).__name__, msg=str(e)[:120])
        try:
            tf = TdmsFile.read(dst.to_stream(), raw_timestamps=True)
        except (PathAbort, Inconclusive):
            raise
        except Exception as e:
            ctx.fail('copy-unreadable', exc=type(e).__name__, msg=str(e)[:120])
        ctx.obligations += 1
        compare_copy(tf, enc, vals, lambda what, **kw: ctx.fail(what, **kw), lambda e, what, **kw: ctx.prove(e, kw, what=what))
        # scaled data of the copy equals scaled data of the source
        import numpy as np
        ts = TdmsFile.read(io.BytesIO(enc.data))
        tc = TdmsFile.read(io.BytesIO(dst.value()) if isinstance(dst.value(), bytes) else dst.to_stream(), raw_timestamps=True)
        for g in ts.groups():
            for c in g.channels():
                if len(c) and c.data_type is not None and c.data_type.enum_value not in (0x20, 0x44):
                    a, b_ = c[:], tc[g.name][c.name][:]
                    if a.tobytes() != b_.tobytes() or a.dtype != b_.dtype:
                        ctx.fail('scaled-data-differs', channel=c.path)
                    ctx.note('scaled-equal')
        ctx.discharged += 1
        if 'sym_ts' in vals:
            ctx.note('raw-timestamp-passthrough')
        if any(k != 'sym_ts' for k in vals):
            ctx.note('int-property-passthrough')
        if any(ch.tcode is None for ch in enc.channels.values()):
            ctx.note('channel-without-type')
        if any(ch.tcode is not None and len(ch.raw) == 0 for ch in enc.channels.values()):
            ctx.note('empty-channel')
        if len(task['shape']) > 1:
            ctx.note('fragmented')
        if task['index']:
            ctx.note('with-index')

    st = explore(fn, max_paths=5000, time_budget=900)
    st.pop('wall_s', None)
    return st


def signature(c):
    what = c.get('what', '')
    if what in ('defragment-exception', 'copy-unreadable'):
        what += ':%s:%s' % (c.get('exc'), _cls(c.get('msg', '')))
    return 'C10/%s' % what


def _cls(msg):
    if "'NoneType' and 'int'" in msg:
        return 'NoneType-times-int'
    return ''.join(ch for ch in msg[:24] if ch.isalpha() or ch == ' ').strip().replace(' ', '-')


def replay(art):
    from nptdms import TdmsFile
    from nptdms.writer import TdmsWriter
    task, inp = art['task'], art['inputs']
    enc = s1.build(task['shape'])
    fields = find_sym_fields(enc.data, task['shape'])
    data = bytearray(enc.data)
    vals = {}
    for f in fields:
        e = 'big' if f['big'] else 'little'
        if f['tcode'] == 0x44:
            sec, frac = inp.get('ts_seconds', 0), inp.get('ts_fractions', 0)
            vals[f['name']] = (sec, frac)
            sb, fb = (sec % 2 ** 64).to_bytes(8, e), frac.to_bytes(8, e)
            data[f['pos']:f['pos'] + 16] = (sb + fb) if f['big'] else (fb + sb)
        else:
            w = tm.TYPES[f['tcode']][1]
            v = inp.get('p_' + f['name'], 0)
            vals[f['name']] = v
            data[f['pos']:f['pos'] + w] = (v % 2 ** (8 * w)).to_bytes(w, e)
    dst = io.BytesIO()
    idx = io.BytesIO() if task['index'] else False
    try:
        TdmsWriter.defragment(io.BytesIO(bytes(data)), dst, index_file=idx)
    except Exception as e:
        return dict(sig=signature(dict(what='defragment-exception', exc=type(e).__name__, msg=str(e)[:120])), exception=repr(e)[:200])
    try:
        dst.seek(0)
        tf = TdmsFile.read(dst, raw_timestamps=True)
    except Exception as e:
        return dict(sig=signature(dict(what='copy-unreadable', exc=type(e).__name__, msg=str(e)[:120])), exception=repr(e)[:200])
    out = []

    class Stop(Exception):
        pass

    def fail(what, **kw):
        out.append(dict(sig='C10/%s' % what, **kw))
        raise Stop()

    def prove(e, what, **kw):
        if not z3.is_true(z3.simplify(e)):
            fail(what, **kw)
    try:
        compare_copy(tf, enc, vals, fail, prove)
    except Stop:
        return out[0]
    return None

"""Kernel shared by C03/C04/C05: the real reader._array_equal / reader._deduplicate_array used by TdmsReader._build_index.

_build_index replaces a channel's per-segment cumulative offsets by a reference to another channel's array
when the two compare equal.  If the comparison says "equal" for arrays that differ anywhere, the second channel
is indexed with the first channel's offsets and lazy windows / integer indexes read the wrong values while
whole-channel reads stay right.  The comparison works block-wise (default block 100), so its interesting
inputs are array lengths around block multiples - far beyond the segment counts of the file families.

Harness: arrays of n solver integers (object-dtype ndarrays whose == and .all() run on the proxies), n a
solver-chosen length; the real function's verdict must equal And(a_i == b_i) on every path.
  (i)  symbolic block size c in [1, 4], n <= 6 (thorough 8): every relation of n to the block size
  (ii) default block size, n around 0, 100, 200, 300 (quick: a subset), arrays differing in at most one (symbolic) position"""
import z3
from ..sx import explore, ex, SymInt

LENGTHS_QUICK = [0, 1, 2, 99, 100, 101, 130, 200, 201]
LENGTHS_THOROUGH = [0, 1, 2, 3, 50, 98, 99, 100, 101, 102, 130, 150, 199, 200, 201, 202, 250, 299, 300, 301]
BUCKETS = ['dedup-equal', 'dedup-differ', 'dedup-small-blocks', 'dedup-default-blocks']


def tasks(tier):
    ts = [dict(kind='dedup', mode='small', nmax=6 if tier == 'quick' else 8)]
    for n in (LENGTHS_QUICK if tier == 'quick' else LENGTHS_THOROUGH):
        ts.append(dict(kind='dedup', mode='default', n=n))
    return ts


def run_task(task):
    import numpy as np

    def fn(ctx):
        from nptdms import reader
        if task['mode'] == 'small':
            n = ctx.choice('n', task['nmax'] + 1)
            c = ctx.choice('cm1', 4) + 1
        else:
            n, c = task['n'], None
            ctx.int('n', n, n)
        a = np.empty(n, dtype=object)
        b = np.empty(n, dtype=object)
        if c is not None:
            for i in range(n):
                a[i] = ctx.int('a%d' % i, -2 ** 63, 2 ** 63 - 1)
                b[i] = ctx.int('b%d' % i, -2 ** 63, 2 ** 63 - 1)
        else:
            # NumPy turns every element comparison of an object array into a bool at once (no short-circuit inside a block), so
            # general arrays would fork 2^n ways: the long arrays differ in at most one position d (d == n: nowhere), by any amount
            d = ctx.int('d', 0, n)
            delta = ctx.int('delta', -2 ** 62, 2 ** 62)
            ctx.add(ex(delta) != 0)
            for i in range(n):
                a[i] = ctx.int('a%d' % i, -2 ** 62, 2 ** 62)
                b[i] = SymInt.mk(ex(a[i]) + z3.If(ex(d) == i, ex(delta), 0))
        array_equal, dedup = reader._array_equal, reader._deduplicate_array     # a missing helper is a harness error, not a finding
        try:
            got = array_equal(a, b) if c is None else array_equal(a, b, c)
        except Exception as e:
            ctx.fail('dedup-exception', exc=type(e).__name__, msg=str(e)[:80])
        got = bool(got)
        want = z3.And(*[ex(a[i]) == ex(b[i]) for i in range(n)]) if n else z3.BoolVal(True)
        ctx.prove(want if got else z3.Not(want), dict(n=n, block=c or 100, verdict=got), what='array-equal-verdict')
        # different lengths are never equal
        if n > 0:
            ctx.obligations += 1
            if bool(reader._array_equal(a, b[:n - 1])):
                ctx.fail('array-equal-different-lengths', n=n)
            ctx.discharged += 1
        # _deduplicate_array returns an array equal to xs: the candidate iff the verdict was "equal"
        r = reader._deduplicate_array(a, iter([b])) if c is None else None
        if c is None:
            ctx.obligations += 1
            if (r is b) != got or (r is not b and r is not a):
                ctx.fail('deduplicate-result', n=n, verdict=got)
            ctx.discharged += 1
        ctx.note('dedup-equal' if got else 'dedup-differ')
        ctx.note('dedup-small-blocks' if c is not None else 'dedup-default-blocks')

    st = explore(fn, max_paths=200000, time_budget=900)
    st.pop('wall_s', None)
    return st


def signature(pid, c):
    return '%s/dedup/%s/%s' % (pid, c['task'].get('mode'), c.get('what', ''))


def replay(pid, art):
    import numpy as np
    from nptdms import reader
    task, inp = art['task'], art['inputs']
    if task['mode'] == 'small':
        n, c = inp.get('n', 0), inp.get('cm1', 0) + 1
    else:
        n, c = task['n'], None
    a = np.array([inp.get('a%d' % i, 0) for i in range(n)], dtype=np.int64)
    if c is not None:
        b = np.array([inp.get('b%d' % i, 0) for i in range(n)], dtype=np.int64)
    else:
        b = np.array([inp.get('a%d' % i, 0) + (inp.get('delta', 1) if inp.get('d', n) == i else 0) for i in range(n)], dtype=np.int64)
    array_equal = reader._array_equal
    try:
        got = bool(array_equal(a, b) if c is None else array_equal(a, b, c))
    except TypeError as e:
        if c is not None and 'argument' in str(e):
            raise                       # the helper no longer takes a block size: harness error
        return dict(sig=signature(pid, dict(task=task, what='dedup-exception')), exception=repr(e)[:200])
    except Exception as e:
        return dict(sig=signature(pid, dict(task=task, what='dedup-exception')), exception=repr(e)[:200])
    want = bool(np.array_equal(a, b))
    if got != want:
        diff = [i for i in range(n) if a[i] != b[i]]
        return dict(sig=signature(pid, dict(task=task, what='array-equal-verdict')), n=n, block=c or 100, verdict=got,
                    differing_positions=diff[:5])
    if n > 0 and bool(reader._array_equal(a, b[:n - 1])):
        return dict(sig=signature(pid, dict(task=task, what='array-equal-different-lengths')), n=n)
    if c is None:
        r = reader._deduplicate_array(a, iter([b]))
        if (r is b) != got or (r is not b and r is not a):
            return dict(sig=signature(pid, dict(task=task, what='deduplicate-result')), n=n)
    return None

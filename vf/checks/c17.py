"""C17 -- sensor scalings invert their sensor laws.

S3 harness (QF_NRA): the real RtdScaling / ThermistorScaling / StrainScaling / PolynomialScaling /
TableScaling .scale run on a voltage that is the sensor law applied to a symbolic temperature or
strain with all parameters symbolic under physical side conditions."""
import numpy as np
import z3
from ..sx import explore, Inconclusive, Violation
from ..sxreal import SymReal, RBool, rarr, rval, nra_check, LOG

RAW = 0xFFFFFFFF
BRIDGES = dict(full1=10183, full2=10184, full3=10185, half1=10188, half2=10189, quarter1=10271, quarter2=10272)

MANIFEST = dict(
    category='other',
    text="Solver obligations (z3, QF_NRA) over the real scaling code on symbolic reals: RTD (Callendar-Van Dusen, quadratic branch "
         "T >= 0: R0, A, B, I, lead resistance all symbolic, 2/3/4-wire; negative branch: branch selection and root selection with "
         "polyroots replaced by 'some negative real root of the quartic' and uniqueness of that root proved for the standard "
         "coefficients on [-200,0)), thermistor (Steinhart-Hart, current and voltage-divider excitation, 2/3/4-wire: recovered "
         "resistance equals the sensor resistance, log uninterpreted), strain (7 bridge types, all of G, nu, Rg, Rlead, V0, gain, "
         "Vex symbolic), the same RTD / thermistor / strain obligations with the object built by from_properties at scale index 0 and 2 "
         "(NI key names written out in the check, decoy values under the other indices), polynomial = Horner (<= 4 symbolic coefficients), table = clamped piecewise-linear interpolation.",
    note="Exact over the reals (the 1e-6 relative tolerance of the statement is implied); float rounding outside. LAPACK root finding "
         "(np.polynomial.polyroots) and np.interp are C-level: replaced by stated stubs. Voltage-excited 2-wire thermistors are "
         "checked with zero lead resistance only (the library does not compensate there; NI's convention is not stated).",
    technique="symbolic execution of the real code on z3 reals + SMT (z3 nlsat, QF_NRA, non-incremental); replay gate",
)

META = dict(
    level='other',
    functions=['scaling.RtdScaling.scale', 'scaling.RtdScaling._solve_quartic_form', 'scaling.RtdScaling._get_negative_real_root',
               'scaling._adjust_for_lead_resistance', 'scaling.RtdScaling.from_properties', 'scaling.ThermistorScaling.from_properties',
               'scaling.StrainScaling.from_properties', 'scaling.ThermistorScaling.scale', 'scaling.StrainScaling.scale',
               'scaling.PolynomialScaling.scale', 'scaling.TableScaling.__init__', 'scaling.TableScaling.scale'],
    bounds=dict(quick='all parameters symbolic reals under the physical side conditions listed per harness; polynomial degree <= 3; '
                      'tables of 3 points', thorough='same; polynomial degree <= 5, tables of 4 points'),
    outside=['float64 rounding (reals)', 'LAPACK eigenvalue root finding', 'np.interp kernel', 'RTD C-coefficient other than the '
             'standard one for the uniqueness lemma'],
    stubs=['np.polynomial.polynomial.polyroots on symbolic coefficients: returns one fresh negative real root of the polynomial',
           'np.interp on symbolic x: clamped piecewise-linear model', 'np.log on symbolic reals: uninterpreted function',
           'np.sqrt: fresh s >= 0 with s*s == arg', 'division by a symbolic real: purified, divisor proved non-zero'],
    assumptions=['sensor laws as written in the property statement / NI documentation (see vf/checks/c17.py oracles)'],
    buckets=dict(all=['rtd-quadratic', 'rtd-negative', 'thermistor', 'strain', 'polynomial', 'table', 'purity']),
    replays_per_signature=3,
    validate_samples=0,
    explanation="Each path of the real scaling code ends in one QF_NRA obligation out == quantity; see MANIFEST text.",
)


def tasks(tier, seed):
    ts = []
    for cfg in (2, 3, 4):
        ts.append(dict(kind='rtd', cfg=cfg))
        ts.append(dict(kind='rtdneg', cfg=cfg))
        for exc in ('current', 'voltage'):
            ts.append(dict(kind='thermistor', cfg=cfg, exc=exc))
    ts.append(dict(kind='rtdroot'))
    for b in BRIDGES:
        ts.append(dict(kind='strain', bridge=b, v0=True))
        ts.append(dict(kind='strain', bridge=b, v0=False))
    # the same obligations with the object built by from_properties at scale index 0 / 2 (decoys under the other indices)
    for via in (0, 2):
        for cfg in ((3,) if tier == 'quick' else (2, 3, 4)):
            ts.append(dict(kind='rtd', cfg=cfg, via=via))
            ts.append(dict(kind='rtdneg', cfg=cfg, via=via))
            for exc in ('current', 'voltage'):
                ts.append(dict(kind='thermistor', cfg=cfg, exc=exc, via=via))
        for b in (('quarter1', 'full3') if tier == 'quick' else BRIDGES):
            ts.append(dict(kind='strain', bridge=b, v0=True, via=via))
    for n in range(0, 5 if tier == 'quick' else 7):
        ts.append(dict(kind='poly', n=n))
    for order in ('inc', 'dec'):
        ts.append(dict(kind='table', order=order, n=3 if tier == 'quick' else 4))
    return ts


RTD_KEYS = ['RTD_Current_Excitation', 'RTD_R0_Nominal_Resistance', 'RTD_A', 'RTD_B', 'RTD_C', 'RTD_Lead_Wire_Resistance',
            'RTD_Resistance_Configuration', 'RTD_Input_Source']
STRAIN_KEYS = ['Strain_' + k for k in ('Configuration', 'Poisson_Ratio', 'Gage_Resistance', 'Lead_Wire_Resistance',
                                       'Initial_Bridge_Voltage', 'Gage_Factor', 'Bridge_Shunt_Calibration_Gain_Adjustment',
                                       'Voltage_Excitation', 'Input_Source')]
THERMISTOR_KEYS = ['Thermistor_' + k for k in ('Excitation_Type', 'Excitation_Value', 'Resistance_Configuration',
                                               'R1_Reference_Resistance', 'Lead_Wire_Resistance', 'A', 'B', 'C',
                                               'Temperature_Offset', 'Input_Source')]


def _build(cls, keys, args, task):
    """The scaling object: by constructor, or (task['via'] = scale index k) through from_properties on a property map that
    carries the parameters under NI_Scale[k]_<NI's key> and decoys (other numbers, invalid configuration codes) under the other
    two indices -- the way TdmsChannel builds it from NI_Scale properties."""
    k = task.get('via')
    if k is None:
        return cls(*args)
    props = {}
    for j in range(3):
        for i, (key, a) in enumerate(zip(keys, args)):
            if j == k:
                props['NI_Scale[%d]_%s' % (j, key)] = a
            elif isinstance(a, int) and not isinstance(a, bool):
                props['NI_Scale[%d]_%s' % (j, key)] = -7 - j
            else:
                props['NI_Scale[%d]_%s' % (j, key)] = 13.0 + 3 * j + i
    return cls.from_properties(props, k)


PURITY_IS_AN_OBLIGATION = False      # purity belongs to C13's statement: C13 runs these harnesses with the flag set


def _scale_pure(ctx, scaler, arr, what):
    """scale and require that the input array object still holds the very same elements (no in-place arithmetic on
    the caller's data; RealArray.astype(copy=False) returns the same array for float64 input like NumPy does)"""
    before = [arr[i] for i in range(len(arr))]
    out = scaler.scale(arr)
    if PURITY_IS_AN_OBLIGATION:
        ctx.obligations += 1
        if any(arr[i] is not before[i] for i in range(len(arr))) or arr.tag != 'float64':
            ctx.fail('scale-modifies-raw-data', scale=what)
        ctx.discharged += 1
    ctx.note('purity')
    return out


def _check(ctx, bad, what, describe):
    ctx.obligations += 1
    ctx.nqueries += 1
    r, m = nra_check(list(ctx.pc) + [bad], timeout_ms=240000)
    if r == z3.unsat:
        ctx.discharged += 1
        return
    if r == z3.unknown:
        raise Inconclusive('%s undecided' % what)
    raise Violation(dict(what=what, inputs=describe(m)))


def _vals(m, names):
    return {k: str(m.eval(v, model_completion=True)) for k, v in names.items()}


class SymRoot(SymReal):
    @property
    def real(self):
        return self

    @property
    def imag(self):
        return 0.0


def _extra(f, a, k):
    import numpy.polynomial.polynomial as poly
    if f is poly.polyroots:
        from ..sx import Ctx
        ctx = Ctx.cur
        coefs = list(a[0])
        ctx.fresh += 1
        x = z3.Real('root%d' % ctx.fresh)
        p = z3.RealVal(0)
        for c in reversed(coefs):
            ce = c.e if isinstance(c, SymReal) else rval(c)
            p = p * x + ce
        ctx.add(z3.And(x < 0, p == 0))
        ctx.root_var = x
        return True, [SymRoot(x)]
    if f is np.sqrt and 'where' in k and isinstance(a[0], np.ndarray) and a[0].dtype == object:
        # elements excluded by `where` stay uninitialised in NumPy; any placeholder will do (they are overwritten)
        mask = np.asarray(k['where'], dtype=bool)
        out = np.empty(a[0].shape, dtype=object)
        for i, x in enumerate(a[0]):
            out[i] = x.sqrt() if mask[i] else SymReal(z3.RealVal(0))
        return True, out
    if f is np.interp:
        # NumPy's documented semantics, including the left / right arguments the caller passes
        x, xp, fp = a[0], a[1], a[2]
        if len(a) > 5 or k.get('period') is not None or (len(a) > 5 and a[5] is not None):
            raise Inconclusive('np.interp with period= is not modelled')

        def term(v):
            return v.e if isinstance(v, SymReal) else rval(v)
        left = a[3] if len(a) > 3 else k.get('left')
        right = a[4] if len(a) > 4 else k.get('right')
        out = np.empty(len(x), dtype=object)
        for i, xi in enumerate(x):
            xe = term(xi)
            xs = [term(v) for v in xp]
            fs = [term(v) for v in fp]
            e = fs[-1] if right is None else term(right)
            e = z3.If(xe <= xs[-1], fs[-1], e)
            for j in range(len(xs) - 2, -1, -1):
                seg = fs[j] + (xe - xs[j]) * (fs[j + 1] - fs[j]) / (xs[j + 1] - xs[j])
                e = z3.If(xe < xs[j + 1], seg, e)
            e = z3.If(xe < xs[0], fs[0] if left is None else term(left), e)
            out[i] = SymReal(e)
        return True, out
    return False, None


def _install():
    from .. import dispatch
    if _extra not in dispatch.EXTRA:
        dispatch.EXTRA.append(_extra)


STD_A, STD_B, STD_C = 3.9083e-3, -5.775e-7, -4.183e-12


def run_task(task):
    _install()
    import nptdms.scaling as sc
    kind = task['kind']

    def rtd(ctx):
        T, r0, a, b, I, rl = z3.Reals('T r0 a b I rl')
        names = dict(T=T, r0=r0, a=a, b=b, I=I, rl=rl)
        ctx.inputs.update(names)
        # physical side conditions: positive resistance/current, A > 0 > B, T on the rising branch of the parabola
        ctx.add(z3.And(T >= 0, r0 > 0, a > 0, b < 0, I > 0, rl >= 0, 2 * b * T + a >= 0))
        cfg = task['cfg']
        s = _build(sc.RtdScaling, RTD_KEYS, (SymReal(I), SymReal(r0), SymReal(a), SymReal(b), STD_C, SymReal(rl), cfg, RAW), task)
        R = r0 * (1 + a * T + b * T * T)
        lead = {2: 2 * rl, 3: rl, 4: 0 * rl}[cfg]
        V = I * (R + lead)
        out = _scale_pure(ctx, s, rarr([V]), 'rtd')
        _check(ctx, out[0].e != T, 'rtd-quadratic', lambda m: _vals(m, names))
        ctx.note('rtd-quadratic')

    def rtdneg(ctx):
        # negative temperatures, standard coefficients, R0 / I / lead symbolic
        T, r0, I, rl = z3.Reals('T r0 I rl')
        names = dict(T=T, r0=r0, I=I, rl=rl)
        ctx.inputs.update(names)
        ctx.add(z3.And(T < 0, T >= -200, r0 > 0, I > 0, rl >= 0))
        cfg = task['cfg']
        A, B, C = rval(STD_A), rval(STD_B), rval(STD_C)
        s = _build(sc.RtdScaling, RTD_KEYS, (SymReal(I), SymReal(r0), STD_A, STD_B, STD_C, SymReal(rl), cfg, RAW), task)
        R = r0 * (1 + A * T + B * T * T + C * (T - 100) * T * T * T)
        lead = {2: 2 * rl, 3: rl, 4: 0 * rl}[cfg]
        V = I * (R + lead)
        out = s.scale(rarr([V]))
        o = out[0]
        oe = o.e if isinstance(o, SymReal) else rval(float(o))
        x = getattr(ctx, 'root_var', None)
        if x is None:
            # the quadratic (T >= 0) form was used for a negative temperature
            _check(ctx, oe != T, 'rtd-negative-wrong-branch', lambda m: _vals(m, names))
        else:
            # the stubbed root finder returned SOME negative root x of the quartic the code built; the code must have
            # built the sensor's quartic: T itself must be a root of it (else the law is not inverted) and the result is x
            _check(ctx, z3.Or(oe != x, _quartic(r0, A, B, C, x) != _quartic(r0, A, B, C, T)), 'rtd-negative',
                   lambda m: _vals(m, names))
        ctx.note('rtd-negative')

    def _quartic(r0, A, B, C, t):
        return r0 * (1 + A * t + B * t * t + C * (t - 100) * t * t * t)

    def rtdroot(ctx):
        # uniqueness lemma for the stub: standard coefficients, T in [-200, 0): no other negative root down to -250
        T, x = z3.Reals('T x')
        A, B, C = rval(STD_A), rval(STD_B), rval(STD_C)
        ctx.inputs.update(dict(T=T, x=x))
        ctx.add(z3.And(T < 0, T >= -200, x < 0, x != T))
        pT = 1 + A * T + B * T * T + C * (T - 100) * T * T * T
        px = 1 + A * x + B * x * x + C * (x - 100) * x * x * x
        # any other negative root is far outside the sensor's range (below -250 C): root selection relies on LAPACK there
        _check(ctx, z3.And(pT == px, x >= -250), 'rtd-root-not-unique', lambda m: _vals(m, dict(T=T, x=x)))
        # _get_negative_real_root: picks the single negative real root from a root list
        roots = [complex(1.0, 2.0), complex(1.0, -2.0), complex(-3.5, 0.0), complex(7.0, 0.0)]
        ctx.obligations += 1
        if sc.RtdScaling._get_negative_real_root(np.array(roots)) != -3.5:
            ctx.fail('root-selection')
        ctx.discharged += 1
        ctx.note('rtd-negative')

    def thermistor(ctx):
        T, R, a, b, c, ex_, r1, rl, off = z3.Reals('T R a b c ex r1 rl off')
        names = dict(R=R, a=a, b=b, c=c, ex=ex_, r1=r1, rl=rl, off=off)
        ctx.inputs.update(names)
        cfg, exc = task['cfg'], task['exc']
        ctx.add(z3.And(R > 0, ex_ > 0, r1 > 0, rl >= 0))
        L = z3.Real('lnR')                  # stands for ln(R): a free real, the identity must hold for every value
        denom = a + b * L + c * L * L * L
        ctx.add(denom != 0)
        ctx.log_oracle = (R, L)
        if exc == 'voltage' and cfg == 2:
            ctx.add(rl == 0)
        lead = {2: 2 * rl, 3: rl, 4: 0 * rl}[cfg]
        Rm = R + lead                      # measured resistance
        if exc == 'current':
            V = ex_ * Rm
            etype = sc.CURRENT_EXCITATION
        else:
            V = ex_ * Rm / (r1 + Rm)       # voltage divider
            etype = sc.VOLTAGE_EXCITATION
        s = _build(sc.ThermistorScaling, THERMISTOR_KEYS, (etype, SymReal(ex_), cfg, SymReal(r1), SymReal(rl), SymReal(a),
                                                           SymReal(b), SymReal(c), SymReal(off), RAW), task)
        try:
            out = _scale_pure(ctx, s, rarr([V]), 'thermistor')
        except ZeroDivisionError:
            # the Steinhart-Hart denominator could not be shown non-zero: that is a violation when the resistance whose
            # logarithm was taken is not the sensor's (denom != 0 is assumed for ln(R) only); otherwise it stays inconclusive
            for arg, _lv in getattr(ctx, 'logs', []):
                _check(ctx, arg != R, 'thermistor-resistance', lambda m: _vals(m, names))
            raise
        expected = 1 / denom - off
        logs = getattr(ctx, 'logs', [])
        if len(logs) != 1:
            ctx.fail('thermistor-structure', logs=len(logs))
        arg, lv = logs[0]
        # (1) the resistance whose logarithm is taken is the sensor resistance; (2) with ln(R) =: L the result is the law
        _check(ctx, arg != R, 'thermistor-resistance', lambda m: _vals(m, names))
        _check(ctx, z3.And(lv == L, out[0].e != expected), 'thermistor', lambda m: _vals(m, names))
        ctx.note('thermistor')

    def strain(ctx):
        e, G, nu, Rg, rl, V0, gain, Vex = z3.Reals('strain G nu Rg rl V0 gain Vex')
        names = dict(strain=e, G=G, nu=nu, Rg=Rg, rl=rl, V0=V0, gain=gain, Vex=Vex)
        ctx.inputs.update(names)
        bridge = task['bridge']
        ctx.add(z3.And(G > 0, nu >= 0, nu < 1, Rg > 0, rl >= 0, gain > 0, Vex > 0, e > -1, e < 1))
        if not task['v0']:
            ctx.add(V0 == 0)
        lf = 1 + rl / Rg if bridge in ('half1', 'half2', 'quarter1', 'quarter2') else z3.RealVal(1)
        ee = e / (gain * lf)               # strain seen by the bridge law
        if bridge == 'full1':
            Vr = -G * ee
        elif bridge == 'full2':
            Vr = -G * ee * (1 + nu) / 2
        elif bridge == 'full3':
            ctx.add(2 + G * ee * (1 - nu) > 0)
            Vr = -G * ee * (1 + nu) / (2 + G * ee * (1 - nu))
        elif bridge == 'half1':
            ctx.add(4 + 2 * G * ee * (1 - nu) > 0)
            Vr = -G * ee * (1 + nu) / (4 + 2 * G * ee * (1 - nu))
        elif bridge == 'half2':
            Vr = -G * ee / 2
        else:
            ctx.add(4 + 2 * G * ee > 0)
            Vr = -G * ee / (4 + 2 * G * ee)
        V = V0 + Vex * Vr
        s = _build(sc.StrainScaling, STRAIN_KEYS, (BRIDGES[bridge], SymReal(nu), SymReal(Rg), SymReal(rl),
                                                   SymReal(V0) if task['v0'] else 0.0, SymReal(G), SymReal(gain), SymReal(Vex),
                                                   RAW), task)
        out = _scale_pure(ctx, s, rarr([V]), 'strain')
        _check(ctx, out[0].e != e, 'strain', lambda m: _vals(m, names))
        ctx.note('strain')

    def polyf(ctx):
        n = task['n']
        x = z3.Real('x')
        cs = [z3.Real('c%d' % i) for i in range(n)]
        names = dict(x=x, **{'c%d' % i: c for i, c in enumerate(cs)})
        ctx.inputs.update(names)
        props = {'NI_Scale[0]_Polynomial_Coefficients_Size': n, 'NI_Scale[0]_Polynomial_Input_Source': RAW}
        for i, c in enumerate(cs):
            props['NI_Scale[0]_Polynomial_Coefficients[%d]' % i] = SymReal(c)
        s = sc.PolynomialScaling.from_properties(props, 0)
        out = _scale_pure(ctx, s, rarr([x]), 'polynomial') if n else s.scale(rarr([x]))
        exp = z3.RealVal(0)
        for c in reversed(cs):
            exp = exp * x + c
        o = out[0]
        oe = o.e if isinstance(o, SymReal) else rval(float(o))
        _check(ctx, oe != exp, 'polynomial', lambda m: _vals(m, names))
        ctx.note('polynomial')

    def table(ctx):
        n = task['n']
        x = z3.Real('x')
        ctx.inputs['x'] = x
        scaled = [1.0, 2.5, 4.0, 9.0][:n]            # inputs of the interpolation ("scaled values")
        pre = []                                     # outputs ("pre-scaled values"): solver variables
        for i in range(n):
            v = z3.Real('f%d' % i)
            ctx.inputs['f%d' % i] = v
            pre.append(SymReal(v))
        if task['order'] == 'dec':
            scaled_p, pre_p = scaled[::-1], pre[::-1]
        else:
            scaled_p, pre_p = scaled, pre
        props = {'NI_Scale[0]_Table_Pre_Scaled_Values_Size': n, 'NI_Scale[0]_Table_Scaled_Values_Size': n,
                 'NI_Scale[0]_Table_Input_Source': RAW}
        for i in range(n):
            props['NI_Scale[0]_Table_Pre_Scaled_Values[%d]' % i] = pre_p[i]
            props['NI_Scale[0]_Table_Scaled_Values[%d]' % i] = scaled_p[i]
        s = sc.TableScaling.from_properties(props, 0)
        out = s.scale(rarr([x]))
        xs, fs = [rval(v) for v in scaled], [v.e for v in pre]
        exp = fs[-1]
        for j in range(n - 2, -1, -1):
            exp = z3.If(x < xs[j + 1], fs[j] + (x - xs[j]) * (fs[j + 1] - fs[j]) / (xs[j + 1] - xs[j]), exp)
        exp = z3.If(x <= xs[0], fs[0], exp)
        _check(ctx, out[0].e != exp, 'table', lambda m: _vals(m, dict(x=x, **{'f%d' % i: pre[i].e for i in range(n)})))
        ctx.note('table')

    fn = dict(rtd=rtd, rtdneg=rtdneg, rtdroot=rtdroot, thermistor=thermistor, strain=strain, poly=polyf, table=table)[kind]
    st = explore(fn, max_paths=500, time_budget=900)
    st.pop('wall_s', None)
    return st


def signature(c):
    t = c['task']
    return 'C17/%s/%s%s/%s' % (t['kind'], t.get('cfg', t.get('bridge', t.get('n', ''))),
                               '' if t.get('via') is None else '@props[%d]' % t['via'], c.get('what', ''))


def _f(s):
    from fractions import Fraction
    s = str(s).rstrip('?')
    try:
        return float(Fraction(s))
    except Exception:
        return float(s)


def replay(art):
    """Concrete confirmation with floats (relative tolerance 1e-6 of the statement)."""
    import nptdms.scaling as sc
    task, inp = art['task'], art['inputs']
    kind = task['kind']
    v = {k: _f(x) for k, x in inp.items() if k not in ('root',)}
    what = art.get('what')

    def rel(a, b):
        return abs(a - b) <= 1e-6 * max(abs(b), 1e-9)
    try:
        if kind in ('rtd', 'rtdneg'):
            cfg = task['cfg']
            if kind == 'rtd':
                A, B, C = v['a'], v['b'], STD_C
                R = v['r0'] * (1 + A * v['T'] + B * v['T'] ** 2)
            else:
                A, B, C = STD_A, STD_B, STD_C
                T = v['T']
                R = v['r0'] * (1 + A * T + B * T * T + C * (T - 100) * T ** 3)
            lead = {2: 2 * v['rl'], 3: v['rl'], 4: 0.0}[cfg]
            V = v['I'] * (R + lead)
            s = _build(sc.RtdScaling, RTD_KEYS, (v['I'], v['r0'], A, B, C, v['rl'], cfg, RAW), task)
            got = float(s.scale(np.array([V]))[0])
            if not rel(got, v['T']):
                return dict(sig=signature(dict(task=task, what=what)), got=got, expected=v['T'], params=v)
            return None
        if kind == 'strain':
            import math
            bridge = task['bridge']
            lf = 1 + v['rl'] / v['Rg'] if bridge in ('half1', 'half2', 'quarter1', 'quarter2') else 1.0
            ee = v['strain'] / (v['gain'] * lf)
            G, nu = v['G'], v['nu']
            Vr = {'full1': -G * ee, 'full2': -G * ee * (1 + nu) / 2, 'full3': -G * ee * (1 + nu) / (2 + G * ee * (1 - nu)),
                  'half1': -G * ee * (1 + nu) / (4 + 2 * G * ee * (1 - nu)), 'half2': -G * ee / 2,
                  'quarter1': -G * ee / (4 + 2 * G * ee), 'quarter2': -G * ee / (4 + 2 * G * ee)}[bridge]
            V = v['V0'] + v['Vex'] * Vr
            s = _build(sc.StrainScaling, STRAIN_KEYS, (BRIDGES[bridge], nu, v['Rg'], v['rl'], v['V0'], G, v['gain'], v['Vex'], RAW),
                       task)
            arr = np.array([V], dtype='float64')
            got = float(s.scale(arr)[0])
            if arr[0] != V and art.get('what') == 'scale-modifies-raw-data':
                return dict(sig='C13/sensor-purity/scale-modifies-raw-data/strain', before=V, after=float(arr[0]), params=v)
            if not rel(got, v['strain']):
                return dict(sig=signature(dict(task=task, what=what)), got=got, expected=v['strain'], params=v)
            return None
        if kind == 'thermistor':
            import math
            cfg, exc = task['cfg'], task['exc']
            lead = {2: 2 * v['rl'], 3: v['rl'], 4: 0.0}[cfg]
            Rm = v['R'] + lead
            V = v['ex'] * Rm if exc == 'current' else v['ex'] * Rm / (v['r1'] + Rm)
            s = _build(sc.ThermistorScaling, THERMISTOR_KEYS,
                       (sc.CURRENT_EXCITATION if exc == 'current' else sc.VOLTAGE_EXCITATION, v['ex'], cfg,
                        v['r1'], v['rl'], v['a'], v['b'], v['c'], v['off'], RAW), task)
            got = float(s.scale(np.array([V]))[0])
            L = math.log(v['R'])
            exp = 1.0 / (v['a'] + v['b'] * L + v['c'] * L ** 3) - v['off']
            if not rel(got, exp):
                return dict(sig=signature(dict(task=task, what=what)), got=got, expected=exp, params=v)
            return None
        if kind == 'poly':
            n = task['n']
            cs = [v['c%d' % i] for i in range(n)]
            got = float(sc.PolynomialScaling(cs, RAW).scale(np.array([v['x']]))[0])
            exp = sum(c * v['x'] ** i for i, c in enumerate(cs))
            if not rel(got, exp):
                return dict(sig=signature(dict(task=task, what=what)), got=got, expected=exp, params=v)
            return None
        if kind == 'table':
            n = task['n']
            scaled = [1.0, 2.5, 4.0, 9.0][:n]
            pre = [v.get('f%d' % i, 0.0) for i in range(n)]
            sp, pp = (scaled[::-1], pre[::-1]) if task['order'] == 'dec' else (scaled, pre)
            props = {'NI_Scale[0]_Table_Pre_Scaled_Values_Size': n, 'NI_Scale[0]_Table_Scaled_Values_Size': n,
                     'NI_Scale[0]_Table_Input_Source': RAW}
            for i in range(n):
                props['NI_Scale[0]_Table_Pre_Scaled_Values[%d]' % i] = pp[i]
                props['NI_Scale[0]_Table_Scaled_Values[%d]' % i] = sp[i]
            x = v.get('x', 0.0)
            got = float(sc.TableScaling.from_properties(props, 0).scale(np.array([x]))[0])
            # clamped piecewise-linear interpolation, written out
            if x <= scaled[0]:
                exp = pre[0]
            elif x >= scaled[-1]:
                exp = pre[-1]
            else:
                j = max(i for i in range(n - 1) if scaled[i] <= x)
                exp = pre[j] + (x - scaled[j]) * (pre[j + 1] - pre[j]) / (scaled[j + 1] - scaled[j])
            if not (rel(got, exp) or abs(got - exp) <= 1e-9):
                return dict(sig=signature(dict(task=task, what=what)), got=got, expected=exp, params=v)
            return None
    except Exception as e:
        return dict(sig=signature(dict(task=task, what=what)), exception=repr(e)[:200], params=v)
    return dict(sig=signature(dict(task=task, what=what)), note='symbolic-only obligation', params=v)

"""C14 -- channel.dtype and len(channel) describe what reads return.

S1: tiny files, raw type x scale type case-split, symbolic windows/slices so that empty and
non-empty outcomes of every read API are reached; assert result.dtype == channel.dtype."""
import io
import z3
from .. import s1, tdmsmodel as tm
from ..sx import explore, ex, PathAbort
from . import c04

A, B = c04.A, c04.B
RAW = 0xFFFFFFFF
RAW_TYPES = [1, 2, 3, 4, 5, 6, 7, 8, 9, 10, 0x19, 0x1A, 0x21, 0x20, 0x44]
SCALES = ['none', 'Linear', 'Polynomial', 'Add', 'Subtract', 'Table', 'RTD', 'Thermocouple', 'Strain', 'Thermistor', 'AdvancedAPI']

MANIFEST = dict(
    category='model_checking',
    text="Bounded symbolic execution of every read API (full, window, slice, chunk streams, iteration, integer index) on tiny files for "
         "every raw type x scale type pair, eager and lazy; windows and slices are symbolic so that the empty and the non-empty "
         "outcome of each API are both reached; on every path result.dtype == channel.dtype and len(full) == len(channel) are "
         "checked (dtype promotion itself is executed by real NumPy; the solver decides the window dimension and enumerates the "
         "type dimension).  Scale coefficients are symbolic in a second harness ('dtype mode': real NumPy arrays, coefficients "
         "solver variables), so value-dependent shortcuts in scale code are paths of their own.  Under raw_timestamps=True (where the "
         "declared dtype is a known finding) an empty window / slice result is compared with a one-element read through the same call.",
    note="Trusted: z3, sx engine, encoder. NumPy's promotion is value-independent (NEP 50) - assumption. A read that raises inside a "
         "sensor scaling (e.g. RTD root selection on arbitrary integers) is not a 'successful read' and is skipped.",
    technique="bounded symbolic execution of the real code + SMT (z3, QF_LIA) per path; replay gate",
)

META = dict(
    level='model_checking',
    functions=['tdms.TdmsChannel.dtype', 'tdms.TdmsChannel._raw_data_dtype', 'scaling.MultiScaling.get_dtype',
               'scaling.MultiScaling._compute_scale_dtype', 'tdms.TdmsChannel.read_data', 'tdms.TdmsChannel._read_slice',
               'tdms.TdmsChannel.data', 'tdms.ChannelDataChunk._data', 'tdms.TdmsChannel.__len__', 'scaling.*.scale'],
    bounds=dict(quick='15 raw types x 11 scale kinds (string/timestamp unscaled only) x eager/lazy, contiguous; every non-string type unscaled and Linear in interleaved layout; 2 segments, 2+1 values; windows '
                      'unbounded (lazy)', thorough='same plus zero-length channels and raw_timestamps'),
    outside=['scale graphs deeper than 1 (C13)', 'DAQmx channels beyond one raw scaler per channel', 'NumPy promotion rules themselves'],
    stubs=c04.META['stubs'],
    assumptions=c04.META['assumptions'] + ['NumPy type promotion does not depend on values'],
    buckets=dict(all=['empty-result', 'nonempty-result', 'chunk-dtype', 'scaled-dtype', 'len', 'daqmx-dtype']),
    replays_per_signature=2,
    validate_samples=8,
)


def scale_props(kind):
    P = 'NI_Scale[0]_'
    if kind == 'none':
        return []
    base = [['NI_Number_Of_Scales', 7, 1], [P + 'Scale_Type', 0x20, kind]]
    if kind == 'Linear':
        return base + [[P + 'Linear_Slope', 10, 2.0], [P + 'Linear_Y_Intercept', 10, 1.0], [P + 'Linear_Input_Source', 7, RAW]]
    if kind == 'Polynomial':
        return base + [[P + 'Polynomial_Coefficients_Size', 7, 2], [P + 'Polynomial_Coefficients[0]', 10, 1.0],
                       [P + 'Polynomial_Coefficients[1]', 10, 0.5], [P + 'Polynomial_Input_Source', 7, RAW]]
    if kind in ('Add', 'Subtract'):
        return base + [[P + kind + '_Left_Operand_Input_Source', 7, RAW], [P + kind + '_Right_Operand_Input_Source', 7, RAW]]
    if kind == 'Table':
        return base + [[P + 'Table_Pre_Scaled_Values_Size', 7, 2], [P + 'Table_Scaled_Values_Size', 7, 2],
                       [P + 'Table_Pre_Scaled_Values[0]', 10, 0.0], [P + 'Table_Pre_Scaled_Values[1]', 10, 10.0],
                       [P + 'Table_Scaled_Values[0]', 10, 0.0], [P + 'Table_Scaled_Values[1]', 10, 100.0],
                       [P + 'Table_Input_Source', 7, RAW]]
    if kind == 'RTD':
        return base + [[P + 'RTD_Current_Excitation', 10, 1e-3], [P + 'RTD_R0_Nominal_Resistance', 10, 100.0],
                       [P + 'RTD_A', 10, 3.9083e-3], [P + 'RTD_B', 10, -5.775e-7], [P + 'RTD_C', 10, -4.183e-12],
                       [P + 'RTD_Lead_Wire_Resistance', 10, 0.0], [P + 'RTD_Resistance_Configuration', 7, 4],
                       [P + 'RTD_Input_Source', 7, RAW]]
    if kind == 'Thermocouple':
        return base + [[P + 'Thermocouple_Thermocouple_Type', 7, 10073], [P + 'Thermocouple_Scaling_Direction', 7, 0],
                       [P + 'Thermocouple_Input_Source', 7, RAW]]
    if kind == 'Strain':
        S = P + 'Strain_'
        return base + [[S + 'Configuration', 7, 10183], [S + 'Poisson_Ratio', 10, 0.3], [S + 'Gage_Resistance', 10, 350.0],
                       [S + 'Lead_Wire_Resistance', 10, 0.0], [S + 'Initial_Bridge_Voltage', 10, 0.0], [S + 'Gage_Factor', 10, 2.0],
                       [S + 'Bridge_Shunt_Calibration_Gain_Adjustment', 10, 1.0], [S + 'Voltage_Excitation', 10, 2.5],
                       [S + 'Input_Source', 7, RAW]]
    if kind == 'Thermistor':
        T = P + 'Thermistor_'
        return base + [[T + 'Excitation_Type', 7, 10134], [T + 'Excitation_Value', 10, 1e-4], [T + 'Resistance_Configuration', 7, 4],
                       [T + 'R1_Reference_Resistance', 10, 1000.0], [T + 'Lead_Wire_Resistance', 10, 0.0], [T + 'A', 10, 1e-3],
                       [T + 'B', 10, 2e-4], [T + 'C', 10, 1e-7], [T + 'Temperature_Offset', 10, 0.0], [T + 'Input_Source', 7, RAW]]
    if kind == 'AdvancedAPI':
        return base + [[P + 'AdvancedAPI_Input_Source', 7, RAW]]
    raise ValueError(kind)


def make_shape(tcode, scale, zero=False, inter=False):
    nv = 0 if zero else 2
    if inter:
        # interleaved layout: equal counts per chunk, a companion of another width
        return [s1.seg([[A, 'full', tcode, 2, scale_props(scale)], [B, 'full', 2, 2]], 1, inter=True),
                s1.seg([[A, 'full', tcode, 1], [B, 'full', 2, 1]], 2, inter=True)]
    return [s1.seg([[A, 'full', tcode, nv, scale_props(scale)], [B, 'full', 2, 1]], 1),
            s1.seg([[A, 'full', tcode, 0 if zero else 1], [B, 'full', 2, 1]], 1 if zero else 2)]


COEF_SCALES = ['Linear', 'Polynomial', 'Add', 'Subtract', 'AdvancedAPI', 'Linear+Linear', 'Polynomial0']
NUMERIC = [1, 2, 3, 4, 5, 6, 7, 8, 9, 10, 0x19, 0x1A]


def tasks(tier, seed):
    ts = []
    for t in NUMERIC:
        for sc in COEF_SCALES:
            ts.append(dict(kind='coef', tcode=t, scale=sc))
    for variant in range(10):
        for mode in ('eager', 'lazy'):
            ts.append(dict(kind='daqmx', variant=variant, mode=mode))
    for t in RAW_TYPES:
        for sc in SCALES:
            if t in (0x20, 0x44, 0x21) and sc != 'none':
                continue
            for mode in ('eager', 'lazy'):
                ts.append(dict(tcode=t, scale=sc, mode=mode, zero=False, raw_ts=False))
                if tier == 'thorough' or (sc in ('none', 'Linear') and t in (3, 9, 0x20, 0x44)):
                    ts.append(dict(tcode=t, scale=sc, mode=mode, zero=True, raw_ts=False))
        if t == 0x44:
            for mode in ('eager', 'lazy'):
                ts.append(dict(tcode=t, scale='none', mode=mode, zero=False, raw_ts=True))
        if t != 0x20:
            for sc in ('none', 'Linear'):
                if t in (0x44, 0x21) and sc != 'none':
                    continue
                for mode in ('eager', 'lazy'):
                    ts.append(dict(tcode=t, scale=sc, mode=mode, zero=False, raw_ts=False, inter=True))
    return ts


OPS_LAZY = ['full', 'window', 'slice', 'chan_chunks', 'file_chunks', 'iter', 'index']
OPS_EAGER = ['full', 'window', 'slice', 'data', 'iter', 'index']


def do_op(tf, ch, op, geti, n, eager):
    """Returns list of (label, array-or-scalar) results of successful reads."""
    import numpy as np
    out = []
    if op == 'full':
        out.append(('[:]', ch[:]))
        out.append(('read_data()', ch.read_data()))
    elif op == 'data':
        out.append(('.data', ch.data))
    elif op == 'window':
        b = n + 1 if eager else None
        o, l = geti('offset', 0, b), geti('length', 0, b)
        out.append(('read_data(o,l)', ch.read_data(o, l)))
    elif op == 'slice':
        b = n + 1 if eager else None
        s_, e_ = geti('start', -b if b else None, b), geti('stop', -b if b else None, b)
        out.append(('[s:e]', ch[slice(s_, e_, None)]))
    elif op == 'chan_chunks':
        for c in ch.data_chunks():
            out.append(('chunk[:]', c[:]))
    elif op == 'file_chunks':
        for dc in tf.data_chunks():
            out.append(('filechunk[:]', dc[ch.group_name][ch.name][:]))
    elif op == 'iter':
        vals = [v for v in ch]
        if vals and hasattr(vals[0], 'dtype'):
            out.append(('iter', np.array(vals[:1]) if not isinstance(vals[0], np.ndarray) else vals[0]))
    elif op == 'index':
        if n > 0:
            i = geti('i', 0, n - 1)
            v = ch[i]
            if hasattr(v, 'dtype'):
                out.append(('[i]', v))
    return out


def _dtype_of(x):
    import numpy as np
    return np.asarray(x).dtype if not hasattr(x, 'dtype') else x.dtype


def _coef_props(scale, ctx, mk):
    """scaling properties with symbolic coefficients (mk(name) -> value)"""
    P = 'NI_Scale[%d]_'
    props = {}
    kinds = scale.split('+')
    if scale == 'Polynomial0':
        kinds = ['Polynomial']
    props['NI_Number_Of_Scales'] = len(kinds)
    for i, k in enumerate(kinds):
        p = P % i
        src = RAW if i == 0 else i - 1
        props[p + 'Scale_Type'] = k
        if k == 'Linear':
            props[p + 'Linear_Slope'] = mk('slope%d' % i)
            props[p + 'Linear_Y_Intercept'] = mk('icpt%d' % i)
            props[p + 'Linear_Input_Source'] = src
        elif k == 'Polynomial':
            ncoef = 0 if scale == 'Polynomial0' else 3
            props[p + 'Polynomial_Coefficients_Size'] = ncoef
            for j in range(ncoef):
                props[p + 'Polynomial_Coefficients[%d]' % j] = mk('c%d_%d' % (i, j))
            props[p + 'Polynomial_Input_Source'] = src
        elif k in ('Add', 'Subtract'):
            props[p + k + '_Left_Operand_Input_Source'] = RAW
            props[p + k + '_Right_Operand_Input_Source'] = RAW
        elif k == 'AdvancedAPI':
            props[p + 'AdvancedAPI_Input_Source'] = src
    return props


def _extra(f, a, k):
    import numpy as np
    from ..sxreal import DReal
    if f is np.polynomial.polynomial.polyval and len(a) >= 2 and any(isinstance(c, DReal) for c in a[1]):
        # dtype mode: coefficients of unknown value behave like Python floats
        return True, f(a[0], [1.0 if isinstance(c, DReal) else c for c in a[1]], *a[2:], **k)
    return False, None


class _Raw:
    def __init__(self, data):
        self.data = data
        self.scaler_data = {}


def _run_coef(task):
    """Scale coefficients symbolic (dtype mode): every value-dependent branch of the scale code is a path; on each path
    the dtype of scaled data (computed by real NumPy) must equal the declared dtype."""
    import numpy as np
    import nptdms.scaling as sc
    import nptdms.types as types
    from ..sxreal import DReal
    tcode = task['tcode']
    ttype = types.tds_data_types[tcode]
    from .. import dispatch
    if _extra not in dispatch.EXTRA:
        dispatch.EXTRA.append(_extra)

    def fn(ctx):
        names = {}

        def mk(name):
            v = z3.Real(name)
            names[name] = v
            ctx.inputs[name] = v
            return DReal(v)
        props = _coef_props(task['scale'], ctx, mk)
        scaling = sc.get_scaling(props, {}, {})
        if scaling is None:
            ctx.fail('no-scaling')
        declared = scaling.get_dtype(ttype, None)
        for n in (2, 0):
            raw = np.zeros(n, dtype=ttype.nptype)
            out = scaling.scale(_Raw(raw))
            ctx.obligations += 1
            if not hasattr(out, 'dtype') or np.dtype(out.dtype) != np.dtype(declared):
                ctx.fail('dtype-mismatch', declared=str(declared), got=str(getattr(out, 'dtype', type(out).__name__)), n=n,
                         op='scale()')
            ctx.discharged += 1
        ctx.note('scaled-dtype')

    st = explore(fn, max_paths=2000, time_budget=300)
    st.pop('wall_s', None)
    return st


def _replay_coef(art):
    import io
    import numpy as np
    from fractions import Fraction
    from nptdms import TdmsFile
    task, inp = art['task'], art['inputs']

    def mk(name):
        s = str(inp.get(name, 0)).rstrip('?')
        try:
            return float(Fraction(s))
        except Exception:
            return float(s)
    props = _coef_props(task['scale'], None, mk)
    plist = []
    for k, v in props.items():
        if isinstance(v, str):
            plist.append([k, 0x20, v])
        elif isinstance(v, float):
            plist.append([k, 10, v])
        else:
            plist.append([k, 7, int(v)])
    sh = [s1.seg([[A, 'full', task['tcode'], 2, plist], [B, 'full', 2, 1]], 2)]
    enc = s1.build(sh)
    for lazy in (False, True):
        f = io.BytesIO(enc.data)
        tf = TdmsFile.open(f) if lazy else TdmsFile.read(f)
        try:
            ch = tf['g']['a']
            for label, arr in (('[:]', ch[:]), ('read_data(1,1)', ch.read_data(1, 1)), ('read_data(4,1)', ch.read_data(4, 1))):
                if np.dtype(arr.dtype) != np.dtype(ch.dtype):
                    return dict(sig=signature(dict(task=task, what='dtype-mismatch')), op=label, declared=str(ch.dtype),
                                got=str(arr.dtype), mode='lazy' if lazy else 'eager', coefficients={k: str(v) for k, v in props.items() if isinstance(v, float)})
        finally:
            tf.close()
    return None


def _daqmx_file(variant):
    """DAQmx file whose channel 'ai0' is scaled by its raw scaler 0 (NI_Number_Of_Scales = 1, no Scale_Type): format-changing
    int16 / float32 scalers and digital lines (uint8 / uint16 words), both byte orders"""
    from .. import daqmxmodel as dm
    S = dm.Scaler
    props = [('NI_Number_Of_Scales', 7, 1)]
    big = variant % 2 == 1
    if variant >= 4:
        # two raw scalers of one channel combined by a final Add / Subtract scale, operands in both orders (so that left > right and
        # left < right both occur in the planted samples), unsigned and mixed operand types
        kind, (ta, tb), swap = [('Subtract', (2, 2), False), ('Subtract', (2, 2), True), ('Add', (2, 0), False), ('Subtract', (4, 2), True),
                                ('Subtract', (0, 3), False), ('Add', (4, 4), True)][variant - 4]
        l_, r_ = (1, 0) if swap else (0, 1)
        P = 'NI_Scale[2]_'
        props = [('NI_Number_Of_Scales', 7, 3), (P + 'Scale_Type', 0x20, kind), (P + kind + '_Left_Operand_Input_Source', 7, l_),
                 (P + kind + '_Right_Operand_Input_Source', 7, r_)]
        sa, sb = dm.DTYPES[ta][1], dm.DTYPES[tb][1]
        chans = [dm.Chan("/'g'/'a'", [S(0, ta, 0, 0), S(1, tb, 0, sa)], 2, props), dm.Chan("/'g'/'b'", [S(0, 0, 0, sa + sb)], 2, [('NI_Number_Of_Scales', 7, 1)])]
        widths = [sa + sb + 1]
    elif variant < 2:
        t = 3 if variant == 0 else 8
        w = dm.DTYPES[t][1] + 2
        chans = [dm.Chan("/'g'/'a'", [S(0, t, 0, 1)], 2, props), dm.Chan("/'g'/'b'", [S(0, 0, 0, 0)], 2, props)]
        widths = [w]
    else:
        t = 0 if variant == 2 else 2
        chans = [dm.Chan("/'g'/'a'", [S(0, t, 0, 3, True)], 2, props), dm.Chan("/'g'/'b'", [S(0, 0, 0, 9, True)], 2, props)]
        widths = [2]
    segs = [dict(chans=chans, widths=widths, nchunks=2, big=big), dict(chans=chans, widths=widths, nchunks=1, big=big)]
    data, info = dm.encode(segs)
    return data, 6


def _run_daqmx(task):
    from nptdms import TdmsFile
    import numpy as np
    data, n = _daqmx_file(task['variant'])
    eager = task['mode'] == 'eager'
    ops = OPS_EAGER if eager else OPS_LAZY

    def fn(ctx):
        op = ops[ctx.choice('op', len(ops))]
        f = io.BytesIO(data)
        tf = TdmsFile.read(f) if eager else TdmsFile.open(f)
        try:
            ch = tf['g']['a']
            ctx.obligations += 1
            if len(ch) != n:
                ctx.fail('len', got=len(ch), expected=n)
            ctx.discharged += 1
            declared = ch.dtype
            try:
                res = do_op(tf, ch, op, ctx.int, n, eager)
            except PathAbort:
                raise
            except Exception as e:
                ctx.fail('exception', exc=type(e).__name__, msg=str(e)[:80], op=op)
            for label, arr in res:
                ctx.obligations += 1
                if not hasattr(arr, 'dtype'):
                    ctx.fail('not-an-array', op=label, declared=str(declared), got=type(arr).__name__)
                if np.dtype(arr.dtype).newbyteorder('=') != np.dtype(declared).newbyteorder('='):      # byte order is not part of the claim
                    ctx.fail('dtype-mismatch', op=label, declared=str(declared), got=str(arr.dtype), empty=bool(np.size(arr) == 0))
                ctx.discharged += 1
                ctx.note('empty-result' if np.size(arr) == 0 else 'nonempty-result')
            ctx.note('daqmx-dtype')
        finally:
            tf.close()

    st = explore(fn, max_paths=5000, time_budget=300)
    st.pop('wall_s', None)
    return st


def _replay_daqmx(art):
    from nptdms import TdmsFile
    import numpy as np
    task, inp = art['task'], art['inputs']
    data, n = _daqmx_file(task['variant'])
    eager = task['mode'] == 'eager'
    ops = OPS_EAGER if eager else OPS_LAZY
    op = ops[inp.get('op', 0)]
    f = io.BytesIO(data)
    tf = TdmsFile.read(f) if eager else TdmsFile.open(f)
    try:
        ch = tf['g']['a']
        if len(ch) != n:
            return dict(sig='C14/len/daqmx', got=len(ch), expected=n)
        try:
            res = do_op(tf, ch, op, lambda name, lo=None, hi=None: inp[name], n, eager)
        except Exception as e:
            return dict(sig='C14/exception/daqmx/%s' % type(e).__name__, exception=repr(e)[:200])
        for label, arr in res:
            if not hasattr(arr, 'dtype') or np.dtype(arr.dtype).newbyteorder('=') != np.dtype(ch.dtype).newbyteorder('='):
                return dict(sig='C14/dtype-mismatch/daqmx/%d' % task['variant'], op=label, declared=str(ch.dtype), got=str(getattr(arr, 'dtype', type(arr).__name__)))
        return None
    finally:
        tf.close()


def run_task(task):
    from nptdms import TdmsFile
    import numpy as np
    if task.get('kind') == 'daqmx':
        return _run_daqmx(task)
    if task.get('kind') == 'coef':
        return _run_coef(task)
    sh = make_shape(task['tcode'], task['scale'], task['zero'], task.get('inter', False))
    enc = s1.build(sh)
    n = len(enc.channels[A])
    eager = task['mode'] == 'eager'
    ops = OPS_EAGER if eager else OPS_LAZY

    def fn(ctx):
        op = ops[ctx.choice('op', len(ops))]
        f = io.BytesIO(enc.data)
        tf = TdmsFile.read(f, raw_timestamps=task['raw_ts']) if eager else TdmsFile.open(f, raw_timestamps=task['raw_ts'])
        try:
            ch = tf['g']['a']
            ctx.obligations += 1
            if len(ch) != n:
                ctx.fail('len', got=len(ch), expected=n)
            ctx.discharged += 1
            ctx.note('len')
            declared = ch.dtype
            try:
                res = do_op(tf, ch, op, ctx.int, n, eager)
            except PathAbort:
                raise
            except Exception as e:
                ctx.info['skipped'] = '%s: %s' % (type(e).__name__, str(e)[:60])
                return                      # not a successful read
            for label, arr in res:
                ctx.obligations += 1
                if not hasattr(arr, 'dtype'):
                    ctx.fail('not-an-array', op=label, declared=str(declared), got=type(arr).__name__)
                got = _dtype_of(arr)
                if np.dtype(got) != np.dtype(declared):
                    ctx.fail('dtype-mismatch', op=label, declared=str(declared), got=str(got), empty=bool(np.size(arr) == 0))
                ctx.discharged += 1
                ctx.note('empty-result' if np.size(arr) == 0 else 'nonempty-result')
                if 'chunk' in label:
                    ctx.note('chunk-dtype')
                if task['scale'] != 'none':
                    ctx.note('scaled-dtype')
            if op == 'full' and res:
                if len(res[0][1]) != len(ch):
                    ctx.fail('full-read-length', got=len(res[0][1]), len_channel=len(ch))
            if task['raw_ts']:
                ctx.obligations += 1
                d = _empty_vs_nonempty(ch, res, n)
                if d:
                    ctx.fail(d.pop('what'), **d)
                ctx.discharged += 1
        finally:
            tf.close()

    st = explore(fn, max_paths=5000, time_budget=300)
    st.pop('wall_s', None)
    return st


def _empty_vs_nonempty(ch, res, n):
    """raw-timestamp reads: channel.dtype is (known finding) not the dtype of the reads, so 'empty results carry the same dtype as
    non-empty ones' is decided directly: an empty window / slice result against a one-element read through the same call."""
    import numpy as np
    if n == 0:
        return None
    for label, arr in res:
        if hasattr(arr, 'dtype') and np.size(arr) == 0 and label in ('read_data(o,l)', '[s:e]'):
            ref = ch.read_data(0, 1) if label == 'read_data(o,l)' else ch[0:1]
            if _dtype_of(ref) != _dtype_of(arr) or type(ref) is not type(arr):
                return dict(what='empty-dtype-differs:' + ('window' if label == 'read_data(o,l)' else 'slice'), op=label,
                            empty=str(_dtype_of(arr)), nonempty=str(_dtype_of(ref)))
    return None


def signature(c):
    t = c['task']
    if t.get('kind') == 'daqmx':
        what = c.get('what', '')
        if what == 'exception':
            return 'C14/exception/daqmx/%s' % c.get('exc')
        return 'C14/%s/daqmx%s' % (what, '/%d' % t['variant'] if what == 'dtype-mismatch' else '')
    return 'C14/%s/%s/%s%s' % (c.get('what', ''), tm.TYPES[t['tcode']][0], t['scale'].split('+')[-1].replace('Polynomial0', 'Polynomial'),
                               '/raw-timestamps' if t.get('raw_ts') else '')          # (layout is not part of the signature)


def replay(art):
    from nptdms import TdmsFile
    import numpy as np
    task, inp = art['task'], art['inputs']
    if task.get('kind') == 'daqmx':
        return _replay_daqmx(art)
    if task.get('kind') == 'coef':
        return _replay_coef(art)
    sh = make_shape(task['tcode'], task['scale'], task['zero'], task.get('inter', False))
    enc = s1.build(sh)
    n = len(enc.channels[A])
    eager = task['mode'] == 'eager'
    ops = OPS_EAGER if eager else OPS_LAZY
    op = ops[inp.get('op', 0)]
    f = io.BytesIO(enc.data)
    tf = TdmsFile.read(f, raw_timestamps=task['raw_ts']) if eager else TdmsFile.open(f, raw_timestamps=task['raw_ts'])
    try:
        ch = tf['g']['a']
        if len(ch) != n:
            return dict(sig=signature(dict(task=task, what='len')), got=len(ch), expected=n)
        declared = ch.dtype
        try:
            res = do_op(tf, ch, op, lambda name, lo=None, hi=None: inp[name], n, eager)
        except Exception:
            return None
        for label, arr in res:
            if not hasattr(arr, 'dtype'):
                return dict(sig=signature(dict(task=task, what='not-an-array')), op=label, declared=str(declared), got=type(arr).__name__)
            got = _dtype_of(arr)
            if np.dtype(got) != np.dtype(declared):
                return dict(sig=signature(dict(task=task, what='dtype-mismatch')), op=label, declared=str(declared), got=str(got),
                            empty=bool(np.size(arr) == 0))
        if op == 'full' and res and len(res[0][1]) != len(ch):
            return dict(sig=signature(dict(task=task, what='full-read-length')), got=len(res[0][1]), len_channel=len(ch))
        if task['raw_ts']:
            d = _empty_vs_nonempty(ch, res, n)
            if d:
                return dict(sig=signature(dict(task=task, what=d.pop('what'))), **d)
        return None
    finally:
        tf.close()

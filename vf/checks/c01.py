"""C01 -- reading returns exactly the content the file encodes.

(I)  integration: well-formed files enumerated by solver-driven case split inside the bounds, read
     eagerly, compared bit-for-bit with the independent oracle;
(Ka) kernel: real TdmsReader._read_lead_in on a lead-in whose fields are symbolic (unbounded);
(Kb) kernel: real TdmsSegment._calculate_chunks / _compute_final_chunk_lengths on symbolic sizes."""
import io
import itertools
import z3
from .. import s1, tdmsmodel as tm
from ..sx import explore, ex, SymInt, PathAbort, Violation, Inconclusive, Ctx, run_concrete
from ..stream import Builder, SymStream, concrete_file

G = "/'g'"
PATHS = ["/'g'/'a'", "/'g'/'b'", "/'h'/'c'"]
TYPES17 = tm.ALL_READABLE

MANIFEST = dict(
    category='model_checking',
    text="(I) Bounded enumeration decided by the solver: every well-formed file with <= 2 segments, <= 2-3 channels, 0-2 values per "
         "chunk, 1-2 chunks, each channel's type any of the 17 readable types, contiguous or interleaved, little or big endian, "
         "optional root/group objects with properties of every property type is a path; TdmsFile.read (raw timestamps on and off) "
         "is compared bit-for-bit with the independent oracle (objects, order, properties, dtype, length, values).  (Ka) the real "
         "lead-in parser on symbolic unbounded position / offsets / file size / toc bits / version equals the format's "
         "definition; (Kb) the real chunk-count and partial-final-chunk computation on symbolic value counts and data sizes "
         "partitions the raw data exactly; (Kc) the real metadata walk over an index-form stream with symbolic unbounded value "
         "counts, offsets and an integer property gives lengths, positions, chunk counts and object lists equal to the format's "
         "arithmetic; (R) seeded random well-formed shapes (inheritance encodings, permuted orders, padding, mixed byte orders, "
         "truncation) read eagerly and lazily, raw timestamps on/off; (D) files whose chunks consist of one special bit pattern "
         "(all zero, all ones, sign bit only: -0.0, INT_MIN, NaN) for every fixed-width type and both layouts.",
    note="Trusted: z3, sx engine, struct model, encoder/oracle. In (I) the solver enumerates structure (feasibility pruning, no "
         "generalisation); planted values include extremes and NaN payloads but are not all values. NumPy decoding given the "
         "right dtype is executed, not encoded.",
    technique="bounded symbolic execution of the real code + SMT (z3, QF_LIA) per path; replay gate",
)

META = dict(
    level='model_checking',
    functions=['reader.TdmsReader._read_lead_in', 'reader.TdmsReader.read_metadata', 'reader.TdmsReader._update_object_metadata',
               'reader.TdmsReader._update_object_properties', 'reader._number_of_segment_values',
               'tdms_segment.TdmsSegment.read_segment_objects', 'tdms_segment.TdmsSegment._calculate_chunks',
               'tdms_segment.TdmsSegment._compute_final_chunk_lengths', 'tdms_segment.TdmsSegment._get_chunk_size',
               'tdms_segment.TdmsSegment.read_raw_data', 'tdms_segment.ContiguousDataReader._read_data_chunk',
               'tdms_segment.InterleavedDataReader._read_interleaved_chunks', 'tdms_segment.read_property',
               'types.*.read / from_bytes / read_values', 'tdms.TdmsFile._read_file', 'tdms.TdmsFile._read_data',
               'channel_data.get_data_receiver'],
    bounds=dict(quick='(I) S<=2, K<=3, NV<=2, NC<=2, 17 types, both layouts, both byte orders, <=2 properties per object (8 property '
                      'types); (Ka) all fields unbounded non-negative integers below 2^64; (Kb) K<=2 objects (thorough 3), value counts <= 2 (thorough 3 for K<=2, 1 for K=3) '
                      '(symbolic), type sizes {1,2,4,8,16}, fewer than 4 (thorough 8 for K<=2) chunks',
                thorough='(I) S<=3, NV<=3, NC<=3'),
    outside=['default (datetime64) reading of timestamps whose seconds are outside datetime64[us] (NumPy raises OverflowError; range stated in C12)', 'larger files', 'values beyond the planted patterns', 'DAQmx (C11)', 'inheritance encodings (C02)'],
    stubs=['SymStream + struct model for the lead-in kernel', 'int()/isinstance/range on symbolic ints'],
    assumptions=['file bytes come from the independent encoder vf/tdmsmodel.py'],
    buckets=dict(all=['file-read', 'interleaved', 'big-endian', 'multi-chunk', 'properties', 'leadin-complete', 'leadin-incomplete',
                      'leadin-eof', 'chunks-exact', 'chunks-partial', 'index-stream-kernel', 'random-shape', 'degenerate-values']),
    replays_per_signature=3,
    validate_samples=10,
)

PROP_POOL = [('i32', 3, -7), ('u8', 5, 200), ('i64', 4, -2 ** 40), ('u64', 8, 2 ** 63 + 5), ('f64', 10, 2.5), ('f32', 9, 0.5),
             ('s', 0x20, 'häll/o'), ('b', 0x21, True), ('t', 0x44, (3600, 2 ** 63)), ('u16', 6, 65535), ('i8', 1, -128),
             ('i16', 2, -3), ('u32', 7, 2 ** 32 - 1), ('s2', 0x20, '')]


def tasks(tier, seed):
    ts = []
    S = 2 if tier == 'quick' else 3
    for ta in TYPES17:
        for inter in (False, True):
            for big in (False, True):
                for struct_ in range(3):
                    ts.append(dict(kind='file', ta=ta, inter=inter, big=big, struct=struct_, S=S, tier=tier))
    ts.append(dict(kind='leadin', big=False))
    ts.append(dict(kind='leadin', big=True))
    ts.append(dict(kind='degenerate'))
    # seeded random well-formed shapes (inheritance encodings, permuted orders, padding, mixed byte orders, truncation ...)
    for blk in range(4 if tier == 'quick' else 40):
        ts.append(dict(kind='random', seed=seed, block=blk, n=12 if tier == 'quick' else 25))
    # index-stream kernel: the first segment's encoding and channel 0's type are fixed per task, the rest is explored
    for k0 in range(2):
        for k1 in range(3):
            for t0 in range(len(KC_TYPES)):
                big = (k0 + k1 + t0) % 2 == 1
                # thorough: three segments for one channel type per first-segment encoding (a 3-segment task costs ~15 CPU minutes)
                ts.append(dict(kind='kc', S=3 if (tier != 'quick' and k1 != 0 and t0 == (k0 + k1) % len(KC_TYPES)) else 2, big=big, lazy=(t0 % 2 == 0),
                               fixed={'kind0_0': k0, 'kind0_1': k1, 'type0': t0}))
    for inter in (False, True):
        for incomplete in (False, True):
            for k in ((1, 2) if tier == 'quick' else (1, 2, 3)):
                for s0 in range(5):
                    deep = tier != 'quick' and k < 3          # three objects: counts <= 1 (the product of counts and sizes explodes)
                    ts.append(dict(kind='chunks', inter=inter, incomplete=incomplete, K=k, size0=s0, maxnv=1 if k == 3 else (3 if deep else 2),
                                   maxchunks=8 if deep else 4))
    return ts


# ----------------------------------------------------------------------------- (I) integration
def gen_shape(task, choose):
    """Build a file shape from solver-driven choices (choose(name, n) -> int)."""
    ta, inter, big, st = task['ta'], task['inter'], task['big'], task['struct']
    nvmax = 2 if task['tier'] == 'quick' else 3
    tb = TYPES17[choose('type_b', len(TYPES17))]
    if inter and (ta == 0x20 or tb == 0x20):
        raise PathAbort()
    nva = choose('nv_a', nvmax + 1)
    nvb = nva if inter else choose('nv_b', nvmax + 1)
    nc = 1 + choose('nc', 2 if task['tier'] == 'quick' else 3)
    if task['tier'] == 'quick':
        pi = (TYPES17.index(tb) * 3 + nva + 5 * nc) % (len(PROP_POOL) - 1)      # quick: property pair tied to the other choices
    else:
        pi = choose('props', len(PROP_POOL) - 1)
    p1, p2 = PROP_POOL[pi], PROP_POOL[pi + 1]
    props_a = [[p1[0], p1[1], list(p1[2]) if isinstance(p1[2], tuple) else p1[2]]]
    props_g = [[p2[0], p2[1], list(p2[2]) if isinstance(p2[2], tuple) else p2[2]], [p1[0], p1[1], list(p1[2]) if isinstance(p1[2], tuple) else p1[2]]]
    a = [PATHS[0], 'full', ta, nva, props_a]
    b = [PATHS[1], 'full', tb, nvb, []]
    segs = []
    if st == 0:            # root + group declared first, one segment
        objs = [['/', 'nodata', 0, 0, props_g], [G, 'nodata', 0, 0, props_a], a, b]
        segs.append(s1.seg(objs, nc, inter=inter, big=big))
    elif st == 1:          # no root / group objects; second segment repeats with other chunk count and a new property value
        segs.append(s1.seg([b, a], nc, inter=inter, big=big))
        a2 = [PATHS[0], 'full', ta, nva, [[p1[0], p2[1], list(p2[2]) if isinstance(p2[2], tuple) else p2[2]]]]
        segs.append(s1.seg([b, a2], 3 - nc if nc < 3 else 1, inter=inter, big=not big))
    else:                  # group declared after its channels; third channel in an undeclared second group; zero-length chunk
        c = [PATHS[2], 'full', ta if ta != 0x20 or not inter else 3, nva if inter else 1, []]
        if inter and c[2] == 0x20:
            raise PathAbort()
        segs.append(s1.seg([a, c, [G, 'nodata', 0, 0, props_g], b], nc, inter=inter, big=big))
        if task['S'] >= 2:
            segs.append(s1.seg([[PATHS[1], 'full', tb, nvb, []], [PATHS[2], 'full', c[2], c[3] if inter else 2, []]] if not inter else
                               [[PATHS[1], 'full', tb, nvb, []], [PATHS[2], 'full', c[2], nvb, []]], 1, inter=inter, big=big))
    if task['S'] >= 3 and st != 0:
        segs.append(s1.seg([[PATHS[0], 'full', ta, 1 if not inter else 2, []]] +
                           ([[PATHS[1], 'full', tb, 2, []]] if inter else []), 2, inter=inter, big=big))
    return segs


def _run_file(task):
    from nptdms import TdmsFile

    def fn(ctx):
        shape = gen_shape(task, ctx.choice)
        try:
            enc = s1.build(shape)
        except tm.Invalid:
            raise PathAbort()
        ctx.info['shape'] = str(shape)[:300]
        for raw_ts in (False, True):
            try:
                tf = TdmsFile.read(io.BytesIO(enc.data), raw_timestamps=raw_ts)
            except Exception as e:
                ctx.fail('exception', exc=type(e).__name__, msg=str(e)[:100], raw_ts=raw_ts)
            ctx.obligations += 1
            mism = s1.compare_file(tf, enc, raw_ts)
            if mism:
                ctx.fail('mismatch:' + mism[0]['what'], detail=mism[0], raw_ts=raw_ts)
            ctx.discharged += 1
        ctx.note('file-read')
        ctx.note('properties')
        if task['inter']:
            ctx.note('interleaved')
        if task['big']:
            ctx.note('big-endian')
        if any(s['nchunks'] > 1 for s in shape):
            ctx.note('multi-chunk')

    st = explore(fn, max_paths=20000, time_budget=900)
    st.pop('wall_s', None)
    return st


# ----------------------------------------------------------------------------- (Ka) lead-in kernel
def _run_leadin(task):
    from nptdms.reader import TdmsReader
    big = task['big']

    def fn(ctx):
        pos = ctx.int('segment_position', 0, 2 ** 62)
        nso = ctx.int('next_segment_offset', 0, 2 ** 64 - 1)
        rdo = ctx.int('raw_data_offset', 0, 2 ** 64 - 1)
        size = ctx.int('file_size', 0, 2 ** 63)
        version = ctx.int('version', 0, 2 ** 31 - 1)
        extra_toc = ctx.int('toc_other_bits', 0, 2 ** 5 - 1)        # bits 1..5: meta, newobj, raw, (bit 4), interleaved
        toc = extra_toc * 2 + (64 if big else 0)
        b = Builder()
        b.raw(b'TDSm')
        b.field(toc, 4, '<')
        b.field(version, 4, '>' if big else '<')
        b.field(nso, 8, '>' if big else '<')
        b.field(rdo, 8, '>' if big else '<')
        f = SymStream(b.regions)
        r = TdmsReader.__new__(TdmsReader)
        r.tdms_version = None
        r._data_file_size = size
        eof = False
        try:
            res = r._read_lead_in(f, pos, False)
        except EOFError:
            eof = True
        P, N, R_, Z = ex(pos), ex(nso), ex(rdo), ex(size)
        marker = N == 0xFFFFFFFFFFFFFFFF
        data_position = P + 28 + R_
        declared_end = P + 28 + N
        incomplete = z3.Or(marker, declared_end > Z)
        end = z3.If(incomplete, Z, declared_end)
        should_eof = z3.And(incomplete, end < data_position)
        if eof:
            ctx.prove(should_eof, what='leadin-unexpected-EOF')
            ctx.note('leadin-eof')
            return
        (rpos, rtoc, rdata, rnext, rinc) = res
        rinc_e = rinc.e if hasattr(rinc, 'e') else z3.BoolVal(bool(rinc))
        ctx.prove(z3.And(z3.Not(should_eof), ex(rpos) == P, ex(rtoc) == ex(toc), ex(rdata) == data_position, ex(rnext) == end,
                         rinc_e == incomplete, ex(r.tdms_version) == ex(version)), what='leadin-values')
        ctx.note('leadin-incomplete' if ctx.check(incomplete) else 'leadin-complete')
        if ctx.check(z3.Not(incomplete)):
            ctx.note('leadin-complete')

    st = explore(fn, max_paths=2000, time_budget=600)
    st.pop('wall_s', None)
    return st


# ----------------------------------------------------------------------------- (Kb) chunk kernel
class _T:
    def __init__(self, size):
        self.size = size
        self.nptype = None


def _chunks_fn(task):
    from nptdms.tdms_segment import TdmsSegment, TdmsSegmentObject
    K, inter, incomplete = task['K'], task['inter'], task['incomplete']

    def fn(ctx):
        sizes = [[1, 2, 4, 8, 16][task['size0'] if k == 0 else ctx.choice('size%d' % k, 5)] for k in range(K)]
        nvs = []
        for k in range(K):
            nv = ctx.int('nv%d' % k, 0, task.get('maxnv', 3))
            nvs.append(nv)
        if inter:
            for k in range(1, K):
                ctx.add(ex(nvs[k]) == ex(nvs[0]))
        has = [bool(ctx.choice('has%d' % k, 2)) if K > 1 else True for k in range(K)]
        total = ctx.int('total_data_size', 0)
        toc = 2 | 4 | 8 | (32 if inter else 0)
        chunk0 = sum((nvs[k] * sizes[k] for k in range(K) if has[k]), 0)
        maxc = task.get('maxchunks', 8)                    # bound: fewer than maxc chunks (quotient case split)
        ctx.add(z3.Or(z3.And(ex(chunk0) == 0, ex(total) <= 3), z3.And(ex(chunk0) > 0, ex(total) <= maxc * ex(chunk0) - 1)))
        seg = TdmsSegment(0, toc, total + 100, 100, incomplete)
        objs = []
        for k in range(K):
            o = TdmsSegmentObject("/'g'/'c%d'" % k)
            o.number_values = nvs[k]
            o.data_type = _T(sizes[k])
            o.data_size = nvs[k] * sizes[k]
            o.has_data = has[k]
            objs.append(o)
        seg.ordered_objects = objs
        chunk = sum((nvs[k] * sizes[k] for k in range(K) if has[k]), 0)
        C, Tt = ex(chunk), ex(total)
        try:
            seg._calculate_chunks()
        except ValueError:
            ctx.prove(z3.And(C == 0, Tt != 0), what='chunks-unexpected-ValueError')
            return
        n = seg.num_chunks
        ov = seg.final_chunk_lengths_override
        ctx.prove(z3.Implies(C == 0, z3.And(ex(n) == 0, Tt == 0)), what='chunks-zero-size')
        if ctx.check(C == 0):
            return
        if ov is None:
            ctx.prove(z3.And(C > 0, ex(n) * C == Tt), what='chunks-exact')
            ctx.note('chunks-exact')
            return
        rem = Tt - (ex(n) - 1) * C
        conj = [C > 0, rem > 0, rem < C]
        # per-object counts of the partial final chunk: the largest prefix that fits
        if inter:
            width = sum(sizes[k] for k in range(K) if has[k])
            for k in range(K):
                if has[k]:
                    got = ov.get(objs[k].path, 0)
                    conj.append(z3.And(ex(got) * width <= rem, (ex(got) + 1) * width > rem, ex(got) <= ex(nvs[k])))
        elif incomplete:
            used = z3.IntVal(0)
            for k in range(K):
                if not has[k]:
                    continue
                got = ex(ov.get(objs[k].path, 0))
                left = rem - used
                fit = z3.If(left <= 0, 0, z3.If(left >= ex(nvs[k]) * sizes[k], ex(nvs[k]), left / sizes[k]))
                conj.append(got == fit)
                used = used + ex(nvs[k]) * sizes[k]
        else:
            for k in range(K):
                if has[k]:
                    got = ex(ov.get(objs[k].path, 0))
                    conj.append(z3.And(got >= 0, got <= ex(nvs[k])))
        ctx.prove(z3.And(*conj), lambda m: dict(override={p: str(v) for p, v in ov.items()}), what='chunks-partial')
        ctx.note('chunks-partial')
    return fn


def _run_chunks(task):
    st = explore(_chunks_fn(task), max_paths=60000, time_budget=900)
    st.pop('wall_s', None)
    return st


# ----------------------------------------------------------------------------- (Kc) metadata walk over an index stream, symbolic sizes
KC_TYPES = [(3, 4), (2, 2), (4, 8), (10, 8), (0x44, 16)]
KC_KINDS = ['full', 'same', 'nodata', 'unlisted']


def _kc_fn(task):
    """Real TdmsReader.read_metadata on an index-form stream (TDSh, no raw data) of S segments x 2 channels whose value counts,
    next-segment and raw-data offsets and an integer property are SYMBOLIC and unbounded; chunk counts are a solver-driven
    choice (<= 3).  Oracle: the format's inheritance rules and length arithmetic, stated independently below."""
    from collections import OrderedDict
    from nptdms.reader import TdmsReader
    S, big = task['S'], task['big']
    paths = ["/'g'/'c0'", "/'g'/'c1'"]

    fixed = task.get('fixed', {})

    def fn(ctx):
        def choice(name, n):
            if name in fixed:
                ctx.int(name, fixed[name], fixed[name])
                return fixed[name]
            return ctx.choice(name, n)
        b = Builder()
        E = '>' if big else '<'
        last = {}                   # path -> (tcode, size, nv term)   last full index (file-wide)
        active, hd = [], {}
        expect_len = {p: 0 for p in paths}
        expect_pos, pos = [], 0
        prop_last = None
        segs = []
        for s in range(S):
            meta = True if s == 0 else bool(choice('meta%d' % s, 2))
            newobj = True if s == 0 else bool(choice('newobj%d' % s, 2))
            toc = (2 if meta else 0) | (4 if (newobj and meta) else 0) | 8 | (64 if big else 0)
            b.raw(b'TDSh')
            b.field(toc, 4, '<')
            b.field(4713, 4, E)
            nso = ctx.int('nso%d' % s, 0, 2 ** 62)
            rdo = ctx.int('rdo%d' % s, 0, 2 ** 62)
            b.field(nso, 8, E)
            b.field(rdo, 8, E)
            m0 = b.pos
            if meta:
                if newobj:
                    active, hd = [], {}
                else:
                    active, hd = list(active), dict(hd)
                listed = []
                for k, p in enumerate(paths):
                    kinds = ['full'] + (['same'] if p in last else []) + ['nodata'] + (['unlisted'] if s > 0 or k > 0 else [])
                    kind = kinds[choice('kind%d_%d' % (s, k), len(kinds))]
                    if kind != 'unlisted':
                        listed.append((p, kind, k))
                b.field(len(listed), 4, E)
                for (p, kind, k) in listed:
                    pb = p.encode()
                    b.field(len(pb), 4, E)
                    b.raw(pb)
                    if kind == 'full':
                        if p in last:
                            tcode, size = last[p][0], last[p][1]
                        else:
                            tcode, size = KC_TYPES[choice('type%d' % k, len(KC_TYPES))] if k == 0 else KC_TYPES[1]
                        nv = ctx.int('nv%d_%d' % (s, k), 0, 2 ** 40)
                        b.field(20, 4, E)
                        b.field(tcode, 4, E)
                        b.field(1, 4, E)
                        b.field(nv, 8, E)
                        last[p] = (tcode, size, nv)
                        hd[p] = True
                    elif kind == 'same':
                        b.field(0, 4, E)
                        hd[p] = True
                    else:
                        b.field(0xFFFFFFFF, 4, E)
                        hd[p] = False
                    if p not in active:
                        active.append(p)
                    if k == 0 and kind != 'unlisted':
                        # one integer property with a symbolic value, its width a choice
                        w = [(3, 4, True), (4, 8, True), (8, 8, False), (2, 2, True)][(s + fixed.get('type0', 0)) % 4]
                        lo, hi = (-(2 ** (8 * w[1] - 1)), 2 ** (8 * w[1] - 1) - 1) if w[2] else (0, 2 ** (8 * w[1]) - 1)
                        pv = ctx.int('prop%d' % s, lo, hi)
                        b.field(1, 4, E)
                        b.field(1, 4, E)
                        b.raw(b'p')
                        b.field(w[0], 4, E)
                        b.field(SymInt.mk(z3.If(ex(pv) < 0, ex(pv) + 2 ** (8 * w[1]), ex(pv))) if w[2] else pv, w[1], E)
                        prop_last = pv
                    else:
                        b.field(0, 4, E)
            meta_len = b.pos - m0
            dobjs = [(p, last[p]) for p in active if hd.get(p) and p in last]
            if any(hd.get(p) and p not in last for p in active):
                raise PathAbort()             # forbidden encoding (no index defined): covered by C02
            chunk = sum((ex(nv) * size for (_, (t, size, nv)) in dobjs), z3.IntVal(0))
            nc = choice('nc%d' % s, 3)
            ctx.add(ex(rdo) == meta_len)
            ctx.add(ex(nso) == meta_len + chunk * nc)
            if nc > 0:
                ctx.add(chunk > 0)
            for (p, (t, size, nv)) in dobjs:
                expect_len[p] = expect_len[p] + ex(nv) * nc
            segs.append(dict(nc=nc, chunk=chunk, pos=pos, data_pos=pos + 28 + meta_len, active=list(active)))
            pos = pos + 28 + ex(nso)
        f = (concrete_file(b.regions) if getattr(ctx, 'concrete', False) else None) or SymStream(b.regions)
        r = TdmsReader.__new__(TdmsReader)
        r._file_path = None
        r._index_file_path = None
        r._file = None
        r._index_file = f
        r._segments = None
        r._prev_segment_objects = {}
        r.object_metadata = OrderedDict()
        r._segment_channel_offsets = {}
        r.tdms_version = None
        r._data_file_size = None
        r.read_metadata(require_segment_indexes=bool(task.get('lazy')))
        if len(r._segments) != S:
            ctx.fail('kc-segment-count', got=len(r._segments), expected=S)
        conj = []
        for sg, m in zip(r._segments, segs):
            conj.append(ex(sg.position) == m['pos'])
            conj.append(ex(sg.data_position) == m['data_pos'])
            conj.append(z3.Implies(m['chunk'] > 0, ex(sg.num_chunks) == m['nc']))
            if [o.path for o in sg.ordered_objects] != m['active']:
                ctx.fail('kc-object-list', got=[o.path for o in sg.ordered_objects], expected=m['active'])
        for p in paths:
            if p in r.object_metadata:
                conj.append(ex(r.object_metadata[p].num_values) == expect_len[p])
                if p in last and r.object_metadata[p].data_type is not None:
                    if r.object_metadata[p].data_type.enum_value != last[p][0]:
                        ctx.fail('kc-type', path=p)
            elif any(p in m['active'] for m in segs):
                ctx.fail('kc-missing-object', path=p)
        if prop_last is not None:
            got = r.object_metadata[paths[0]].properties.get('p')
            conj.append(ex(got) == ex(prop_last))
        ctx.prove(z3.And(*conj), what='kc-lengths-positions')
        ctx.note('index-stream-kernel')
    return fn


def _run_kc(task):
    st = explore(_kc_fn(task), max_paths=60000, time_budget=1500)
    st.pop('wall_s', None)
    return st


# ----------------------------------------------------------------------------- (R) seeded random shapes, whole-file comparison
def _random_shapes(task):
    from .. import shapes
    fam = shapes.random_family(task['seed'] * 1000 + task['block'], task['n'])
    return fam


def _check_random_shape(sh, fail, raw_modes=(False, True)):
    from nptdms import TdmsFile
    from . import c03
    enc = s1.build(sh)
    for raw_ts in raw_modes:
        expv = {p: c03._trunc_expected(None, enc, p, raw_ts) for p in enc.channels}
        for opener in (TdmsFile.read, TdmsFile.open):
            try:
                tf = opener(io.BytesIO(enc.data), raw_timestamps=raw_ts)
            except Exception as e:
                fail('exception', exc=type(e).__name__, msg=str(e)[:100], mode=opener.__name__)
                return
            try:
                try:
                    mism = s1.compare_file(tf, enc, raw_ts, expected_values=expv)
                except Exception as e:
                    fail('exception', exc=type(e).__name__, msg=str(e)[:100], mode=opener.__name__)
                    return
                if mism:
                    fail('mismatch:' + mism[0]['what'], detail=mism[0], mode=opener.__name__, raw_ts=raw_ts)
            finally:
                tf.close()


def _run_random(task):
    fam = _random_shapes(task)

    def fn(ctx):
        i = ctx.choice('shape', len(fam))
        ctx.info['shape'] = str(fam[i])[:300]
        ctx.obligations += 1
        _check_random_shape(fam[i], lambda what, **kw: ctx.fail(what, **kw))
        ctx.discharged += 1
        ctx.note('random-shape')

    st = explore(fn, max_paths=5000, time_budget=900)
    st.pop('wall_s', None)
    return st


# ----------------------------------------------------------------------------- (D) degenerate value patterns
def _degenerate_shapes():
    """chunks made only of one special bit pattern: -0.0, +0.0, all ones, NaN with payload, 0x80.., for every fixed-width type"""
    out = []
    for t in sorted(tm.TYPES):
        size = tm.TYPES[t][1]
        if size is None or t == 0x21:
            continue
        pats = [b'\x00' * size, b'\xff' * size, b'\x00' * (size - 1) + b'\x80']
        if t in (0x08000c, 0x10000d):
            h = size // 2
            pats.append(b'\x00' * (h - 1) + b'\x80' + b'\x00' * h)
            pats.append((b'\x00' * (h - 1) + b'\x80') * 2)
        for pi, p in enumerate(pats):
            vals = [[p.hex(), p.hex()], [pats[(pi + 1) % len(pats)].hex(), p.hex()]]
            for inter in (False, True):
                # timestamps whose seconds are not representable as datetime64[us] are read in raw mode only (C12 states the range)
                out.append([dict(s1.seg([[PATHS[0], 'full', t, 2, [], None, vals], [PATHS[1], 'full', 4 if inter else 2, 2 if inter else 1]], 2, inter=inter),
                                 raw_only=(t == 0x44 and pi > 0)),
                            s1.seg([[PATHS[0], 'full', t, 2, [], None, [vals[0]]]], 1, inter=inter)])
    return out


def _run_degenerate(task):
    fam = _degenerate_shapes()

    def fn(ctx):
        i = ctx.choice('shape', len(fam))
        ctx.obligations += 1
        _check_random_shape(fam[i], lambda what, **kw: ctx.fail(what, **kw), (True,) if fam[i][0].get('raw_only') else (False, True))
        ctx.discharged += 1
        ctx.note('degenerate-values')

    st = explore(fn, max_paths=5000, time_budget=600)
    st.pop('wall_s', None)
    return st


def run_task(task):
    return dict(file=_run_file, leadin=_run_leadin, chunks=_run_chunks, kc=_run_kc, random=_run_random,
                degenerate=_run_degenerate)[task['kind']](task)


def signature(c):
    t = c['task']
    what = c.get('what', '')
    if what == 'exception':
        what = 'exception:%s' % c.get('exc')
    if t['kind'] == 'file':
        return 'C01/file/%s/%s/%s' % (what, tm.TYPES[t['ta']][0], 'interleaved' if t['inter'] else 'contiguous')
    if t['kind'] in ('random', 'degenerate'):
        return 'C01/%s/%s/%s' % (t['kind'], what, c.get('mode', ''))
    return 'C01/%s/%s' % (t['kind'], what)


def replay(art):
    from nptdms import TdmsFile
    task, inp = art['task'], art['inputs']
    if task['kind'] == 'file':
        try:
            shape = gen_shape(task, lambda name, n: inp.get(name, 0))
            enc = s1.build(shape)
        except (PathAbort, tm.Invalid):
            return None
        for raw_ts in (False, True):
            try:
                tf = TdmsFile.read(io.BytesIO(enc.data), raw_timestamps=raw_ts)
            except Exception as e:
                return dict(sig=signature(dict(task=task, what='exception', exc=type(e).__name__)), exception=repr(e)[:200],
                            file_hex=enc.data.hex()[:600])
            mism = s1.compare_file(tf, enc, raw_ts)
            if mism:
                return dict(sig=signature(dict(task=task, what='mismatch:' + mism[0]['what'])), detail=mism[0], raw_ts=raw_ts)
        return None
    if task['kind'] in ('random', 'degenerate'):
        fam = _random_shapes(task) if task['kind'] == 'random' else _degenerate_shapes()
        out = []

        class Stop(Exception):
            pass

        def fail(what, **kw):
            out.append(dict(sig=signature(dict(task=task, what=what, exc=kw.get('exc'), mode=kw.get('mode', ''))), **kw))
            raise Stop()
        try:
            sh = fam[inp.get('shape', 0)]
            _check_random_shape(sh, fail, (True,) if sh[0].get('raw_only') else (False, True))
        except Stop:
            return out[0]
        return None
    if task['kind'] == 'leadin':
        import struct
        from nptdms.reader import TdmsReader
        big = task['big']
        e = '>' if big else '<'
        toc = inp['toc_other_bits'] * 2 + (64 if big else 0)
        data = b'TDSm' + struct.pack('<l', toc) + struct.pack(e + 'lQQ', inp['version'], inp['next_segment_offset'], inp['raw_data_offset'])
        r = TdmsReader.__new__(TdmsReader)
        r.tdms_version = None
        r._data_file_size = inp['file_size']
        P, N, R_, Z = inp['segment_position'], inp['next_segment_offset'], inp['raw_data_offset'], inp['file_size']
        marker = N == 0xFFFFFFFFFFFFFFFF
        inc = marker or (P + 28 + N > Z)
        end = Z if inc else P + 28 + N
        exp = 'EOF' if (inc and end < P + 28 + R_) else (P, toc, P + 28 + R_, end, inc)
        try:
            got = r._read_lead_in(io.BytesIO(data), P, False)
        except EOFError:
            got = 'EOF'
        if got != exp:
            return dict(sig=signature(dict(task=task, what=art.get('what'))), got=str(got), expected=str(exp))
        return None
    if task['kind'] in ('chunks', 'kc'):
        # the same harness on pinned inputs against the plain package (real struct, real bytes, Python ints)
        try:
            v = run_concrete(_chunks_fn(task) if task['kind'] == 'chunks' else _kc_fn(task), inp)
        except Exception as e:
            return dict(sig=signature(dict(task=task, what=art.get('what'))), exception=repr(e)[:200], inputs=inp)
        if v is None:
            return None
        return dict(sig=signature(dict(task=task, what=v.get('what'))), detail={k: str(x)[:200] for k, x in v.items() if k != 'inputs'},
                    inputs=inp)
    return dict(sig=signature(dict(task=task, what=art.get('what'))), note='kernel obligation on internal state; inputs: %r' % (inp,))

"""C13 -- scaled data is the dataflow evaluation of the NI_Scale definitions.

S3: the real get_scaling / MultiScaling / Linear / Polynomial / Add / Subtract / Table / DAQmx
scaler scalings on symbolic reals with symbolic input-source wiring.  S1: files carrying scaling
properties on channel / group / root in every object order, eager and lazy, symbolic windows."""
import itertools
import struct
import numpy as np
import z3
from .. import s1, tdmsmodel as tm
from ..sx import explore, SymInt, ex, Inconclusive, Violation, PathAbort
from ..sxreal import SymReal, rarr, rval, nra_check, RealArray
from . import c04

RAW = 0xFFFFFFFF
TYPES = ['Linear', 'Polynomial', 'Add', 'Subtract']

MANIFEST = dict(
    category='model_checking',
    text="Bounded symbolic execution of the real scaling graph evaluator: scale graphs of depth 1-3 over Linear / Polynomial / Add / "
         "Subtract (+ Table through a stated interp stub, + DAQmx raw scalers) with every coefficient and the raw value a symbolic "
         "real and the input-source wiring a symbolic integer (raw data or any other scale, earlier or later, acyclic); oracle = independent recursive evaluation of the definitions; also "
         "lookup order channel -> group -> file with NI_Scaling_Status, inferred vs. declared number of scales, elementwise "
         "independence, and purity (the raw array object and its elements are unchanged after scaling, with astype(copy=False) "
         "aliasing modelled).  File level: scaling properties on channel / group / root in all object orders, eager and lazy, "
         "lazy windows symbolic (C04 harness) against the oracle-scaled values.",
    note="Decided over the reals in the S3 part (float rounding outside); the file-level part compares float64 results bit-exactly "
         "with an independent evaluator using the same IEEE operations (x*slope+intercept, Horner).  np.interp is C-level: Table "
         "is checked through a piecewise-linear stub.  Graph depth and shapes are bounded.",
    technique="bounded symbolic execution of the real code on z3 reals + SMT (z3 QF_NRA / QF_LIA) per path; replay gate",
)

META = dict(
    level='model_checking',
    functions=['scaling.get_scaling', 'scaling._get_channel_scaling', 'scaling._get_number_of_scalings',
               'scaling.MultiScaling.scale', 'scaling.MultiScaling._compute_scaled_data', 'scaling.LinearScaling.scale',
               'scaling.PolynomialScaling.scale', 'scaling.AddScaling.scale', 'scaling.SubtractScaling.scale',
               'scaling.TableScaling.scale', 'scaling.DaqMxScalerScaling.scale_daqmx', 'tdms.TdmsChannel._scale_data',
               'tdms.TdmsChannel.read_data', 'tdms.TdmsFile._read_file (property scoping)'],
    bounds=dict(quick='graphs of 1-3 scales over {Linear, Polynomial(3 coefficients), Add, Subtract}, wiring symbolic (raw or any '
                      'other scale, earlier or later, acyclic), all coefficients and raw value real and unbounded; arrays of 2 elements; files: 2 segments, '
                      'int32/float64 raw data, Linear and Polynomial scale on channel/group/root x object order x eager/lazy',
                thorough='graphs of up to 4 scales; more file shapes'),
    outside=['float rounding in the S3 part', 'np.interp kernel (stub)', 'sensor scale types (C17, C18)', 'deeper graphs'],
    stubs=['np.interp: clamped piecewise-linear model', 'RealArray: object array with dtype tag; astype(copy=False) returns self iff '
           'the tag matches'] + c04.META['stubs'],
    assumptions=['the documented formulas: Linear y = slope*x + intercept; Polynomial sum c_i x^i; Add left+right; Subtract right-left '
                 '(as the Excel TDMS plugin does)'] + c04.META['assumptions'],
    buckets=dict(all=['graph', 'wiring-to-earlier-scale', 'wiring-to-later-scale', 'wiring-to-raw', 'lookup-order', 'status-scaled', 'daqmx-scaler',
                      'elementwise', 'purity', 'file-scaled-window', 'file-group-scope', 'file-root-scope']),
    replays_per_signature=3,
    validate_samples=8,
)


def tasks(tier, seed):
    ts = []
    maxn = 3 if tier == 'quick' else 4
    for n in range(1, maxn + 1):
        for types in itertools.product(TYPES, repeat=n):
            if types[0] in ('Add', 'Subtract') and n > 1 and tier == 'quick' and types[1] in ('Add', 'Subtract'):
                continue
            for declared in ((True, False) if n <= 2 else (True,)):
                ts.append(dict(kind='graph', types=list(types), declared=declared))
    for types in (['AdvancedAPI', 'Add'], ['AdvancedAPI', 'Subtract'], ['AdvancedAPI', 'Linear', 'Add'], ['AdvancedAPI', 'Linear', 'Subtract'],
                  ['Linear', 'AdvancedAPI', 'Add'], ['AdvancedAPI', 'Polynomial'], ['AdvancedAPI', 'AdvancedAPI', 'Subtract']):
        ts.append(dict(kind='graph', types=types, declared=True))
    ts.append(dict(kind='concrete-purity'))
    ts.append(dict(kind='chain'))
    ts.append(dict(kind='lookup'))
    # purity of the sensor scale types (their formulas are C17's subject; that they leave the raw array alone is C13's)
    from . import c17
    for t in c17.tasks('quick', 0):
        if t['kind'] in ('rtd', 'thermistor', 'strain', 'poly'):
            ts.append(dict(kind='sensor-purity', inner=t))
    ts.append(dict(kind='daqmx'))
    ts.append(dict(kind='table'))
    for scope in ('channel', 'group', 'root'):
        for order in ('group-first', 'channel-first', 'group-in-later-segment', 'no-group-object'):
            if scope != 'group' and order not in ('group-first', 'channel-first'):
                continue
            for stype in ('Linear', 'Polynomial'):
                for mode in ('lazy', 'eager'):
                    for api in ('read_data', 'index') + (('slice',) if tier == 'thorough' else ()):
                        ts.append(dict(kind='file', pid='C13', scope=scope, order=order, stype=stype, mode=mode, api=api,
                                       shape=_file_shape(scope, order, stype), raw=3))
    return ts


# ----------------------------------------------------------------------------- S3 graph
class Raw:
    def __init__(self, data, scaler_data=None):
        self.data = data
        self.scaler_data = scaler_data or {}


def _src_any(ctx, name, i, n=None, pos=None):
    """symbolic input source for scale i: the raw data or any other scale, earlier or later, as long as the wiring stays acyclic
    (pos is a symbolic rank per scale: a scale reads only scales of smaller rank)"""
    v = ctx.int(name)
    if pos is None:
        ctx.add(z3.Or(v.e == RAW, *[v.e == j for j in range(i)]))
    else:
        ctx.add(z3.Or(v.e == RAW, *[z3.And(v.e == j, pos[j] < pos[i]) for j in range(n) if j != i]))
    return v


def _graph(task, ctx):
    import nptdms.scaling as sc
    types = task['types']
    n = len(types)
    x = z3.Real('x')
    y = z3.Real('y')
    ctx.inputs.update(x=x, y=y)
    props = {}
    if task['declared']:
        props['NI_Number_Of_Scales'] = n
    spec = {}
    pos = [z3.Int('rank%d' % i) for i in range(n)]
    ctx.add(z3.And(*[z3.And(p_ >= 0, p_ < n) for p_ in pos]))

    def _src(ctx, name, i):
        return _src_any(ctx, name, i, n, pos)
    for i, t in enumerate(types):
        props['NI_Scale[%d]_Scale_Type' % i] = t
        if t == 'Linear':
            s_ = _src(ctx, 'src%d' % i, i)
            a, b = z3.Real('slope%d' % i), z3.Real('icpt%d' % i)
            ctx.inputs.update({'slope%d' % i: a, 'icpt%d' % i: b})
            props['NI_Scale[%d]_Linear_Slope' % i] = SymReal(a)
            props['NI_Scale[%d]_Linear_Y_Intercept' % i] = SymReal(b)
            props['NI_Scale[%d]_Linear_Input_Source' % i] = s_
            spec[i] = ('lin', a, b, s_)
        elif t == 'Polynomial':
            s_ = _src(ctx, 'src%d' % i, i)
            cs = [z3.Real('c%d_%d' % (i, j)) for j in range(3)]
            ctx.inputs.update({'c%d_%d' % (i, j): c for j, c in enumerate(cs)})
            props['NI_Scale[%d]_Polynomial_Coefficients_Size' % i] = 3
            for j, c in enumerate(cs):
                props['NI_Scale[%d]_Polynomial_Coefficients[%d]' % (i, j)] = SymReal(c)
            props['NI_Scale[%d]_Polynomial_Input_Source' % i] = s_
            spec[i] = ('poly', cs, s_)
        elif t == 'AdvancedAPI':
            # passes its input through unchanged: later scales receive the very array it was given (possibly the raw data)
            s_ = _src(ctx, 'src%d' % i, i)
            props['NI_Scale[%d]_AdvancedAPI_Input_Source' % i] = s_
            spec[i] = ('noop', s_)
        else:
            l_, r_ = _src(ctx, 'left%d' % i, i), _src(ctx, 'right%d' % i, i)
            props['NI_Scale[%d]_%s_Left_Operand_Input_Source' % (i, t)] = l_
            props['NI_Scale[%d]_%s_Right_Operand_Input_Source' % (i, t)] = r_
            spec[i] = (t, l_, r_)
    scaling = sc.get_scaling(props, {}, {})
    if scaling is None:
        ctx.fail('no-scaling-found')
    raw = rarr([x, y])
    before = [raw[0], raw[1]]
    out = scaling.scale(Raw(raw))

    def ev(srcv, xv, i, d):
        e = ex(srcv)
        r = xv                  # unreachable default: the wiring is acyclic, so depth n suffices
        if d > 0:
            for j in range(n - 1, -1, -1):
                if j != i:
                    r = z3.If(e == j, ev_scale(j, xv, d - 1), r)
        return z3.If(e == RAW, xv, r)

    memo = {}

    def ev_scale(i, xv, d=n):
        key = (i, xv.get_id(), d)
        if key in memo:
            return memo[key]
        s_ = spec[i]
        if s_[0] == 'lin':
            r = ev(s_[3], xv, i, d) * s_[1] + s_[2]
        elif s_[0] == 'poly':
            inp = ev(s_[2], xv, i, d)
            r = s_[1][0] + s_[1][1] * inp + s_[1][2] * inp * inp
        elif s_[0] == 'noop':
            r = ev(s_[1], xv, i, d)
        elif s_[0] == 'Add':
            r = ev(s_[1], xv, i, d) + ev(s_[2], xv, i, d)
        else:
            r = ev(s_[2], xv, i, d) - ev(s_[1], xv, i, d)
        memo[key] = r
        return r

    if len(out) != 2:
        ctx.fail('length', got=len(out))
    ctx.obligations += 1
    ctx.nqueries += 1
    bad = z3.Or(out[0].e != ev_scale(n - 1, x), out[1].e != ev_scale(n - 1, y))
    r, m = nra_check(list(ctx.pc) + [bad], timeout_ms=120000)
    if r == z3.sat:
        raise Violation(dict(what='graph-value', inputs=ctx.model_inputs(m), types=types))
    if r != z3.unsat:
        raise Inconclusive('graph identity undecided')
    ctx.discharged += 1
    # purity: the raw array object still holds the very same elements and dtype tag
    ctx.obligations += 1
    if raw[0] is not before[0] or raw[1] is not before[1] or raw.tag != 'float64':
        ctx.fail('raw-data-modified', types=types)
    ctx.discharged += 1
    ctx.note('graph')
    ctx.note('purity')
    ctx.note('elementwise')
    srcs = [v for s_ in spec.values() for v in s_[1:] if isinstance(v, SymInt)]
    if srcs and ctx.check(z3.Or(*[v.e != RAW for v in srcs])):
        ctx.note('wiring-to-earlier-scale')
    if any(ctx.check(z3.And(v.e != RAW, v.e > i_)) for i_, s_ in spec.items() for v in s_[1:] if isinstance(v, SymInt)):
        ctx.note('wiring-to-later-scale')
    ctx.note('wiring-to-raw')


def _cp_builders():
    """(name, builder(input_source) -> scale object, sample raw values) for every scale class that takes one input"""
    import nptdms.scaling as sc
    from . import c17
    out = [
        ('Linear', lambda src: sc.LinearScaling(1.0, 2.0, src), [0.5, -1.5, 3.0]),
        ('Polynomial', lambda src: sc.PolynomialScaling([1.0, 0.5, 0.25], src), [0.5, -1.5, 3.0]),
        ('Table', lambda src: sc.TableScaling(np.array([5.0, -1.0, 3.0]), np.array([1.0, 2.0, 4.0]), src), [0.5, 1.5, 5.0]),
        ('Table-decreasing', lambda src: sc.TableScaling(np.array([3.0, -1.0, 5.0]), np.array([4.0, 2.0, 1.0]), src), [0.5, 1.5, 5.0]),
        ('Thermocouple-K-uV-to-C', lambda src: sc.ThermocoupleScaling(10073, 0, src), [4096.0, 0.0, -1000.0]),
        ('Thermocouple-K-C-to-uV', lambda src: sc.ThermocoupleScaling(10073, 1, src), [100.0, 0.0, -50.0]),
        ('Thermocouple-T-uV-to-C', lambda src: sc.ThermocoupleScaling(10086, 0, src), [4279.0, 0.0, -1000.0]),
        ('AdvancedAPI', lambda src: sc.NoOpScaling(src), [0.5, -1.5, 3.0]),
    ]
    for cfg in (2, 3, 4):
        out.append(('RTD-%d-wire' % cfg, lambda src, cfg=cfg: sc.RtdScaling(1e-3, 100.0, 3.9083e-3, -5.775e-7, -4.183e-12, 0.5, cfg, src),
                    [0.11, 0.14, 0.09]))
    for b, code in c17.BRIDGES.items():
        out.append(('Strain-' + b, lambda src, code=code: sc.StrainScaling(code, 0.3, 350.0, 0.2, 1e-4, 2.1, 1.0, 2.5, src), [1e-3, -2e-3, 0.0]))
    for exc in (sc.CURRENT_EXCITATION, sc.VOLTAGE_EXCITATION):
        out.append(('Thermistor-%s' % exc, lambda src, exc=exc: sc.ThermistorScaling(exc, 1e-4 if exc == sc.CURRENT_EXCITATION else 2.5, 4, 5000.0, 0.0,
                                                                                   1.0e-3, 2.4e-4, 1.5e-7, 273.15, src),
                    [1.0, 0.8, 1.2] if exc == sc.CURRENT_EXCITATION else [1.6, 1.5, 1.7]))
    return out


def _cp_run(si, via, dt, on_scale_error=None):
    """returns None or (what, detail): the caller's array is bit-identical after scaling and a second call gives the same result.
    Building the scale objects happens outside any handler: if a constructor's signature differs from what this harness assumes,
    that is a harness error (inconclusive), not a finding."""
    import nptdms.scaling as sc
    import warnings
    name, build, vals = _cp_builders()[si]
    arr = np.array(vals, dtype=['float64', 'float32'][dt])
    keep = arr.tobytes()
    if via == 0:
        ms = sc.MultiScaling([build(RAW)])                                  # the scale reads the raw data
    elif via == 1:
        ms = sc.MultiScaling([sc.NoOpScaling(RAW), build(0)])               # ... or the output of a pass-through scale (the same array)
    else:
        ms = sc.MultiScaling([sc.NoOpScaling(RAW), build(0), sc.AddScaling(1, 0)])     # ... and the array is needed again afterwards
    with warnings.catch_warnings():
        warnings.simplefilter('ignore')
        try:
            out1 = np.array(ms.scale(Raw(arr)), copy=True)
        except Exception as e:
            return 'concrete-purity-exception', dict(scale=name, exc=type(e).__name__, msg=str(e)[:100])
        if arr.tobytes() != keep:
            return 'scale-modifies-raw-data', dict(scale=name, before=vals, after=[float(v) for v in arr])
        try:
            out2 = np.array(ms.scale(Raw(arr)), copy=True)
        except Exception as e:
            return 'concrete-purity-exception', dict(scale=name, exc=type(e).__name__, msg=str(e)[:100], call='second')
    if arr.tobytes() != keep:
        return 'scale-modifies-raw-data', dict(scale=name, before=vals, after=[float(v) for v in arr])
    if out1.tobytes() != out2.tobytes():
        return 'second-scaling-differs', dict(scale=name, first=[float(v) for v in out1], second=[float(v) for v in out2])
    if dt == 1 and name.split('-')[0] in ('Strain', 'Thermistor'):
        # sensor laws hold to 1e-6 relative whatever float type stores the voltage: the float32 samples, widened, must give the same result
        # (RTD is left out: it computes float32 input in float32 - the recorded C14 finding SingleFloat/RTD - and is 4e-6 off for that reason)
        with warnings.catch_warnings():
            warnings.simplefilter('ignore')
            ref = np.array(ms.scale(Raw(arr.astype('float64'))), dtype='float64')
        o = np.array(out1, dtype='float64')
        bad = [i for i in range(len(o)) if np.isfinite(ref[i]) and not abs(o[i] - ref[i]) <= 1e-6 * max(abs(ref[i]), 1e-12)]
        if bad:
            return 'float32-input-loses-precision', dict(scale=name, float32_result=[float(v) for v in o], float64_result=[float(v) for v in ref])
    return None


def _concrete_purity(ctx):
    """NumPy float arrays (the object arrays of the symbolic harnesses cannot reach dtype-dependent fast paths): every scale class x
    input wiring x float dtype, solver-driven case split, concrete execution"""
    n = len(_cp_builders())
    si = ctx.choice('scale', n)
    via = ctx.choice('via', 3)
    dt = ctx.choice('dtype', 2)
    ctx.obligations += 1
    r = _cp_run(si, via, dt)
    if r is not None:
        ctx.fail(r[0], **r[1])
    ctx.discharged += 1
    ctx.note('purity')


CHAIN_MAX = 24


def _chain_props(n, declared):
    props = {}
    if declared:
        props['NI_Number_Of_Scales'] = n
    for i in range(n):
        props['NI_Scale[%d]_Scale_Type' % i] = 'Linear'
        props['NI_Scale[%d]_Linear_Slope' % i] = 2.0
        props['NI_Scale[%d]_Linear_Y_Intercept' % i] = float(i)
        props['NI_Scale[%d]_Linear_Input_Source' % i] = RAW if i == 0 else i - 1
    return props


def _chain_expected(n, x):
    v = x
    for i in range(n):
        v = v * 2 + i
    return v


def _chain(ctx):
    """a chain of n Linear scales (1 <= n <= 24), the number of scales declared or inferred from the property names: the result is
    the output of the LAST scale (indices above 9 have two digits)"""
    import nptdms.scaling as sc
    n = 1 + ctx.choice('n', CHAIN_MAX)
    declared = bool(ctx.choice('declared', 2))
    x = z3.Real('x')
    ctx.inputs['x'] = x
    scaling = sc.get_scaling(_chain_props(n, declared), {}, {})
    if scaling is None:
        ctx.fail('no-scaling-found', n=n)
    out = scaling.scale(Raw(rarr([x])))
    ctx.obligations += 1
    ctx.nqueries += 1
    r, m = nra_check(list(ctx.pc) + [out[0].e != _chain_expected(n, x)])
    if r == z3.sat:
        raise Violation(dict(what='chain-value', inputs=ctx.model_inputs(m), n=n, declared=declared))
    if r != z3.unsat:
        raise Inconclusive('chain undecided')
    ctx.discharged += 1
    ctx.note('graph')


def _lookup(ctx):
    import nptdms.scaling as sc
    x = z3.Real('x')
    ctx.inputs['x'] = x
    levels = []
    slopes = []
    for lvl in ('channel', 'group', 'root'):
        kind = ctx.choice('kind_' + lvl, 4)     # 0 none, 1 linear, 2 linear but status=scaled, 3 zero scales declared
        a = z3.Real('slope_' + lvl)
        ctx.inputs['slope_' + lvl] = a
        p = {}
        if kind in (1, 2):
            p = {'NI_Scale[0]_Scale_Type': 'Linear', 'NI_Scale[0]_Linear_Slope': SymReal(a),
                 'NI_Scale[0]_Linear_Y_Intercept': 0.0, 'NI_Scale[0]_Linear_Input_Source': RAW}
            if ctx.choice('decl_' + lvl, 2):
                p['NI_Number_Of_Scales'] = 1
            if kind == 2:
                p['NI_Scaling_Status'] = 'scaled'
        elif kind == 3:
            p = {'NI_Number_Of_Scales': 0}
        levels.append(p)
        slopes.append((kind, a))
    scaling = sc.get_scaling(*levels)
    expected = None
    for kind, a in slopes:
        if kind == 1:
            expected = a
            break
    ctx.obligations += 1
    if expected is None:
        if scaling is not None:
            ctx.fail('scaling-found-but-none-in-scope', kinds=[k for k, _ in slopes])
        ctx.discharged += 1
        if any(k == 2 for k, _ in slopes):
            ctx.note('status-scaled')
        ctx.note('lookup-order')
        return
    if scaling is None:
        ctx.fail('scaling-not-found', kinds=[k for k, _ in slopes])
    out = scaling.scale(Raw(rarr([x])))
    r, m = nra_check(list(ctx.pc) + [out[0].e != expected * x])
    ctx.nqueries += 1
    if r == z3.sat:
        raise Violation(dict(what='lookup-order', inputs=ctx.model_inputs(m), kinds=[k for k, _ in slopes]))
    if r != z3.unsat:
        raise Inconclusive('lookup undecided')
    ctx.discharged += 1
    ctx.note('lookup-order')


def _daqmx(ctx):
    import nptdms.scaling as sc
    a0, a1, s, b = z3.Reals('a0 a1 s b')
    ctx.inputs.update(a0=a0, a1=a1, slope=s, icpt=b)
    which = ctx.choice('final', 3)
    props = {'NI_Number_Of_Scales': 3}
    # scales 0 and 1 come from DAQmx raw scalers (no Scale_Type property); scale 2 combines them
    if which == 0:
        src = _src_any(ctx, 'src', 2)
        ctx.add(src.e != RAW)
        props.update({'NI_Scale[2]_Scale_Type': 'Linear', 'NI_Scale[2]_Linear_Slope': SymReal(s),
                      'NI_Scale[2]_Linear_Y_Intercept': SymReal(b), 'NI_Scale[2]_Linear_Input_Source': src})
        exp = z3.If(src.e == 0, a0, a1) * s + b
    elif which == 1:
        props.update({'NI_Scale[2]_Scale_Type': 'Add', 'NI_Scale[2]_Add_Left_Operand_Input_Source': 0,
                      'NI_Scale[2]_Add_Right_Operand_Input_Source': 1})
        exp = a0 + a1
    else:
        props.update({'NI_Scale[2]_Scale_Type': 'Subtract', 'NI_Scale[2]_Subtract_Left_Operand_Input_Source': 0,
                      'NI_Scale[2]_Subtract_Right_Operand_Input_Source': 1})
        exp = a1 - a0
    scaling = sc.get_scaling(props, {}, {})
    sd = {0: rarr([a0]), 1: rarr([a1])}
    before = [sd[0][0], sd[1][0]]
    out = scaling.scale(Raw(None, sd))
    ctx.obligations += 1
    ctx.nqueries += 1
    r, m = nra_check(list(ctx.pc) + [out[0].e != exp])
    if r == z3.sat:
        raise Violation(dict(what='daqmx-scaler', inputs=ctx.model_inputs(m), final=which))
    if r != z3.unsat:
        raise Inconclusive('daqmx undecided')
    ctx.discharged += 1
    # purity: the raw scaler arrays still hold the very same elements
    ctx.obligations += 1
    if sd[0][0] is not before[0] or sd[1][0] is not before[1]:
        ctx.fail('raw-scaler-data-modified', final=which)
    ctx.discharged += 1
    ctx.note('daqmx-scaler')


def _table(ctx):
    from . import c17
    c17._install()
    import nptdms.scaling as sc
    x, s, b = z3.Reals('x slope icpt')
    ctx.inputs.update(x=x, slope=s, icpt=b)
    props = {'NI_Number_Of_Scales': 2, 'NI_Scale[0]_Scale_Type': 'Linear', 'NI_Scale[0]_Linear_Slope': SymReal(s),
             'NI_Scale[0]_Linear_Y_Intercept': SymReal(b), 'NI_Scale[0]_Linear_Input_Source': RAW,
             'NI_Scale[1]_Scale_Type': 'Table', 'NI_Scale[1]_Table_Input_Source': 0,
             'NI_Scale[1]_Table_Pre_Scaled_Values_Size': 3, 'NI_Scale[1]_Table_Scaled_Values_Size': 3}
    scaled, pre = [1.0, 2.0, 4.0], [5.0, -1.0, 3.0]
    for i in range(3):
        props['NI_Scale[1]_Table_Pre_Scaled_Values[%d]' % i] = pre[i]
        props['NI_Scale[1]_Table_Scaled_Values[%d]' % i] = scaled[i]
    scaling = sc.get_scaling(props, {}, {})
    out = scaling.scale(Raw(rarr([x])))
    v = x * s + b
    xs, fs = [rval(t) for t in scaled], [rval(t) for t in pre]
    exp = fs[-1]
    for j in range(1, -1, -1):
        exp = z3.If(v < xs[j + 1], fs[j] + (v - xs[j]) * (fs[j + 1] - fs[j]) / (xs[j + 1] - xs[j]), exp)
    exp = z3.If(v <= xs[0], fs[0], exp)
    ctx.obligations += 1
    ctx.nqueries += 1
    r, m = nra_check(list(ctx.pc) + [out[0].e != exp])
    if r == z3.sat:
        raise Violation(dict(what='table-graph', inputs=ctx.model_inputs(m)))
    if r != z3.unsat:
        raise Inconclusive('table undecided')
    ctx.discharged += 1
    ctx.note('graph')


# ----------------------------------------------------------------------------- file level
SLOPE, ICPT = 2.5, -7.0
POLY = [1.5, -0.25, 0.125]


def _scale_props(stype):
    if stype == 'Linear':
        return [['NI_Number_Of_Scales', 7, 1], ['NI_Scale[0]_Scale_Type', 0x20, 'Linear'],
                ['NI_Scale[0]_Linear_Slope', 10, SLOPE], ['NI_Scale[0]_Linear_Y_Intercept', 10, ICPT],
                ['NI_Scale[0]_Linear_Input_Source', 7, RAW]]
    return [['NI_Scale[0]_Scale_Type', 0x20, 'Polynomial'], ['NI_Scale[0]_Polynomial_Coefficients_Size', 7, 3],
            ['NI_Scale[0]_Polynomial_Coefficients[0]', 10, POLY[0]], ['NI_Scale[0]_Polynomial_Coefficients[1]', 10, POLY[1]],
            ['NI_Scale[0]_Polynomial_Coefficients[2]', 10, POLY[2]], ['NI_Scale[0]_Polynomial_Input_Source', 7, RAW]]


def _file_shape(scope, order, stype):
    raw_t = 3          # int32 raw data (planted float64 values include NaN payloads whose sign/payload after arithmetic is unspecified)
    props = _scale_props(stype)
    G, ROOT = "/'g'", '/'
    a0 = [c04.A, 'full', raw_t, 2, props if scope == 'channel' else []]
    b0 = [c04.B, 'full', 2, 1, []]
    g = [G, 'nodata', 0, 0, props if scope == 'group' else []]
    root = [ROOT, 'nodata', 0, 0, props if scope == 'root' else []]
    if order == 'group-first':
        s0 = [root, g, a0, b0]
    elif order == 'channel-first':
        s0 = [a0, b0, g, root]
    elif order == 'group-in-later-segment':
        s0 = [root, a0, b0]
    else:
        s0 = [root, a0, b0]
    seg0 = s1.seg(s0, 2)
    if order == 'group-in-later-segment':
        seg1 = s1.seg([g, [c04.A, 'full', raw_t, 3, []], b0], 1)
    else:
        seg1 = s1.seg([[c04.A, 'full', raw_t, 3, []], b0], 1)
    return [seg0, seg1]


def _expected_scaled(task, enc):
    """Oracle-scaled channel values as little-endian float64 byte images (same IEEE operations, independent code)."""
    ch = enc.channels[c04.A]
    out = []
    has_scale = not (task['scope'] == 'group' and task['order'] == 'no-group-object')
    for r in ch.raw:
        if task['raw'] == 3:
            v = struct.unpack('<l', r)[0]
        else:
            v = struct.unpack('<d', r)[0]
        if not has_scale:
            out.append(bytes(r))
            continue
        x = float(v)
        if task['stype'] == 'Linear':
            y = np.float64(x) * np.float64(SLOPE) + np.float64(ICPT)
        else:
            y = np.float64(POLY[2])
            for c in (POLY[1], POLY[0]):
                y = np.float64(c) + y * np.float64(x)
        out.append(struct.pack('<d', float(y)))
    tcode = 10 if has_scale else task['raw']
    return out, tcode


def run_task(task):
    kind = task['kind']
    if kind == 'sensor-purity':
        from . import c17
        c17.PURITY_IS_AN_OBLIGATION = True
        try:
            st = c17.run_task(task['inner'])
        finally:
            c17.PURITY_IS_AN_OBLIGATION = False
        st['violations'] = [v for v in st['violations'] if v.get('what') == 'scale-modifies-raw-data']
        return st
    if kind == 'file':
        enc = s1.build(task['shape'])
        full, tcode = _expected_scaled(task, enc)
        st = c04.run_task(task, full=full, tcode=tcode)
        st['notes'] = {'file-scaled-window': st['paths'],
                       'file-%s-scope' % task['scope']: st['paths']}
        return st
    fn = dict(graph=lambda c: _graph(task, c), lookup=_lookup, daqmx=_daqmx, table=_table, chain=_chain, **{'concrete-purity': _concrete_purity})[kind]
    st = explore(fn, max_paths=20000, time_budget=900)
    st.pop('wall_s', None)
    return st


def signature(c):
    t = c['task']
    if t['kind'] == 'sensor-purity':
        return 'C13/sensor-purity/%s/%s' % (c.get('what', ''), c.get('scale', t['inner']['kind']))
    if t['kind'] == 'file':
        return 'C13/file/%s/%s/%s/%s/%s' % (t['scope'], t['order'], t['stype'], t['mode'], c.get('what', ''))
    return 'C13/%s/%s/%s' % (t['kind'], '-'.join(t.get('types', [])), c.get('what', ''))


def replay(art):
    task = art['task']
    if task['kind'] == 'sensor-purity':
        return _replay_sensor_purity(art)
    if task['kind'] == 'file':
        enc = s1.build(task['shape'])
        full, tcode = _expected_scaled(task, enc)
        r = c04.replay(art, full=full, tcode=tcode)
        if r is not None:
            r['sig'] = signature(dict(task=task, what=art.get('what') if art.get('what') != 'sample' else 'wrong-data'))
            if 'exception' in r:
                r['sig'] = signature(dict(task=task, what='exception'))
        return r
    return _replay_graph(art)


def _fl(v):
    from fractions import Fraction
    s = str(v).rstrip('?')
    try:
        return float(Fraction(s))
    except Exception:
        return float(s)


def _replay_kernel(art):
    """concrete float replays of the lookup / DAQmx-scaler / table-in-a-graph obligations on the plain package"""
    import numpy as np
    import nptdms.scaling as sc
    task, inp = art['task'], art['inputs']
    kind = task['kind']

    def close(a, b):
        return abs(a - b) <= 1e-9 * max(1.0, abs(a), abs(b))

    class R:
        def __init__(self, data, scaler_data=None):
            self.data, self.scaler_data = data, scaler_data or {}
    try:
        if kind == 'lookup':
            x = _fl(inp.get('x', 1))
            levels, slopes = [], []
            for lvl in ('channel', 'group', 'root'):
                k = int(inp.get('kind_' + lvl, 0))
                a = _fl(inp.get('slope_' + lvl, 0))
                p = {}
                if k in (1, 2):
                    p = {'NI_Scale[0]_Scale_Type': 'Linear', 'NI_Scale[0]_Linear_Slope': a, 'NI_Scale[0]_Linear_Y_Intercept': 0.0,
                         'NI_Scale[0]_Linear_Input_Source': RAW}
                    if int(inp.get('decl_' + lvl, 0)):
                        p['NI_Number_Of_Scales'] = 1
                    if k == 2:
                        p['NI_Scaling_Status'] = 'scaled'
                elif k == 3:
                    p = {'NI_Number_Of_Scales': 0}
                levels.append(p)
                slopes.append((k, a))
            scaling = sc.get_scaling(*levels)
            expected = next((a for k, a in slopes if k == 1), None)
            if expected is None:
                if scaling is not None:
                    return dict(sig=signature(dict(task=task, what='scaling-found-but-none-in-scope')), kinds=[k for k, _ in slopes])
                return None
            if scaling is None:
                return dict(sig=signature(dict(task=task, what='scaling-not-found')), kinds=[k for k, _ in slopes])
            got = float(scaling.scale(R(np.array([x])))[0])
            if not close(got, expected * x):
                return dict(sig=signature(dict(task=task, what='lookup-order')), got=got, expected=expected * x, kinds=[k for k, _ in slopes])
            return None
        if kind == 'daqmx':
            a0, a1, sl, b = (_fl(inp.get(n, d)) for n, d in (('a0', 1), ('a1', 2), ('slope', 1), ('icpt', 0)))
            which = int(inp.get('final', 0))
            props = {'NI_Number_Of_Scales': 3}
            if which == 0:
                src = int(inp.get('src', 0))
                props.update({'NI_Scale[2]_Scale_Type': 'Linear', 'NI_Scale[2]_Linear_Slope': sl, 'NI_Scale[2]_Linear_Y_Intercept': b,
                              'NI_Scale[2]_Linear_Input_Source': src})
                exp = (a0 if src == 0 else a1) * sl + b
            elif which == 1:
                props.update({'NI_Scale[2]_Scale_Type': 'Add', 'NI_Scale[2]_Add_Left_Operand_Input_Source': 0,
                              'NI_Scale[2]_Add_Right_Operand_Input_Source': 1})
                exp = a0 + a1
            else:
                props.update({'NI_Scale[2]_Scale_Type': 'Subtract', 'NI_Scale[2]_Subtract_Left_Operand_Input_Source': 0,
                              'NI_Scale[2]_Subtract_Right_Operand_Input_Source': 1})
                exp = a1 - a0
            sd = {0: np.array([a0]), 1: np.array([a1])}
            got = float(sc.get_scaling(props, {}, {}).scale(R(None, sd))[0])
            if not close(got, exp):
                return dict(sig=signature(dict(task=task, what='daqmx-scaler')), got=got, expected=exp, final=which)
            if float(sd[0][0]) != a0 or float(sd[1][0]) != a1:
                return dict(sig=signature(dict(task=task, what='raw-scaler-data-modified')), before=[a0, a1],
                            after=[float(sd[0][0]), float(sd[1][0])], final=which)
            return None
        if kind == 'table':
            x, sl, b = _fl(inp.get('x', 0)), _fl(inp.get('slope', 1)), _fl(inp.get('icpt', 0))
            props = {'NI_Number_Of_Scales': 2, 'NI_Scale[0]_Scale_Type': 'Linear', 'NI_Scale[0]_Linear_Slope': sl,
                     'NI_Scale[0]_Linear_Y_Intercept': b, 'NI_Scale[0]_Linear_Input_Source': RAW,
                     'NI_Scale[1]_Scale_Type': 'Table', 'NI_Scale[1]_Table_Input_Source': 0,
                     'NI_Scale[1]_Table_Pre_Scaled_Values_Size': 3, 'NI_Scale[1]_Table_Scaled_Values_Size': 3}
            scaled, pre = [1.0, 2.0, 4.0], [5.0, -1.0, 3.0]
            for i in range(3):
                props['NI_Scale[1]_Table_Pre_Scaled_Values[%d]' % i] = pre[i]
                props['NI_Scale[1]_Table_Scaled_Values[%d]' % i] = scaled[i]
            got = float(sc.get_scaling(props, {}, {}).scale(R(np.array([x])))[0])
            v = x * sl + b
            if v <= scaled[0]:
                exp = pre[0]
            elif v >= scaled[-1]:
                exp = pre[-1]
            else:
                j = max(i for i in range(2) if scaled[i] <= v)
                exp = pre[j] + (v - scaled[j]) * (pre[j + 1] - pre[j]) / (scaled[j + 1] - scaled[j])
            if not close(got, exp):
                return dict(sig=signature(dict(task=task, what='table-graph')), got=got, expected=exp, x=x, slope=sl, icpt=b)
            return None
    except Exception as e:
        return dict(sig=signature(dict(task=task, what=art.get('what'))), exception=repr(e)[:200], inputs=inp)
    return None


def _visible(inp):
    """a purity violation holds on the whole path (any values); the model's values may be ones on which the in-place write happens to
    store the same number (e.g. adding 0): replay with generic non-zero values on the same path (integer choices kept)"""
    out = {}
    for i, (k, v) in enumerate(sorted(inp.items())):
        if k.startswith(('src', 'left', 'right', 'final', 'kind_', 'decl_')):
            out[k] = v
        else:
            out[k] = 1.5 + 0.75 * i
    return out


def _replay_graph(art):
    import nptdms.scaling as sc
    task, inp = art['task'], art['inputs']
    if art.get('what') in ('raw-data-modified', 'raw-scaler-data-modified'):
        art = dict(art, inputs=_visible(inp))
        inp = art['inputs']
    if task['kind'] in ('lookup', 'daqmx', 'table'):
        return _replay_kernel(art)
    if task['kind'] == 'chain':
        import nptdms.scaling as sc
        n, declared, x = 1 + int(inp.get('n', 0)), bool(int(inp.get('declared', 0))), _fl(inp.get('x', 1))
        got = float(sc.get_scaling(_chain_props(n, declared), {}, {}).scale(Raw(np.array([x])))[0])
        exp = _chain_expected(n, x)
        if abs(got - exp) > 1e-9 * max(1.0, abs(exp)):
            return dict(sig=signature(dict(task=task, what='chain-value')), n=n, declared=declared, x=x, got=got, expected=exp)
        return None
    if task['kind'] == 'concrete-purity':
        r = _cp_run(int(inp.get('scale', 0)), int(inp.get('via', 0)), int(inp.get('dtype', 0)))
        if r is None:
            return None
        return dict(sig=signature(dict(task=task, what=r[0])), **r[1])
    if task['kind'] != 'graph':
        return dict(sig=signature(dict(task=task, what=art.get('what'))), note='symbolic-only obligation', inputs=inp)
    types = task['types']
    n = len(types)
    props = {}
    if task['declared']:
        props['NI_Number_Of_Scales'] = n
    for i, t in enumerate(types):
        props['NI_Scale[%d]_Scale_Type' % i] = t
        if t == 'Linear':
            props['NI_Scale[%d]_Linear_Slope' % i] = _fl(inp['slope%d' % i])
            props['NI_Scale[%d]_Linear_Y_Intercept' % i] = _fl(inp['icpt%d' % i])
            props['NI_Scale[%d]_Linear_Input_Source' % i] = int(inp['src%d' % i])
        elif t == 'Polynomial':
            props['NI_Scale[%d]_Polynomial_Coefficients_Size' % i] = 3
            for j in range(3):
                props['NI_Scale[%d]_Polynomial_Coefficients[%d]' % (i, j)] = _fl(inp['c%d_%d' % (i, j)])
            props['NI_Scale[%d]_Polynomial_Input_Source' % i] = int(inp['src%d' % i])
        elif t == 'AdvancedAPI':
            props['NI_Scale[%d]_AdvancedAPI_Input_Source' % i] = int(inp['src%d' % i])
        else:
            props['NI_Scale[%d]_%s_Left_Operand_Input_Source' % (i, t)] = int(inp['left%d' % i])
            props['NI_Scale[%d]_%s_Right_Operand_Input_Source' % (i, t)] = int(inp['right%d' % i])
    x = np.array([_fl(inp['x']), _fl(inp['y'])])
    keep = x.copy()

    def ev(src, xv):
        return xv if src == RAW else ev_scale(src, xv)

    def ev_scale(i, xv):
        t = types[i]
        if t == 'Linear':
            return ev(props['NI_Scale[%d]_Linear_Input_Source' % i], xv) * props['NI_Scale[%d]_Linear_Slope' % i] + \
                props['NI_Scale[%d]_Linear_Y_Intercept' % i]
        if t == 'Polynomial':
            v = ev(props['NI_Scale[%d]_Polynomial_Input_Source' % i], xv)
            return sum(props['NI_Scale[%d]_Polynomial_Coefficients[%d]' % (i, j)] * v ** j for j in range(3))
        if t == 'AdvancedAPI':
            return ev(props['NI_Scale[%d]_AdvancedAPI_Input_Source' % i], xv)
        l_ = ev(props['NI_Scale[%d]_%s_Left_Operand_Input_Source' % (i, t)], xv)
        r_ = ev(props['NI_Scale[%d]_%s_Right_Operand_Input_Source' % (i, t)], xv)
        return l_ + r_ if t == 'Add' else r_ - l_
    try:
        scaling = sc.get_scaling(props, {}, {})
        out = scaling.scale(Raw(x))
    except Exception as e:
        return dict(sig=signature(dict(task=task, what='exception')), exception=repr(e)[:200])
    exp = [ev_scale(n - 1, float(v)) for v in keep]
    if not np.allclose(out, exp, rtol=1e-9, atol=1e-9):
        return dict(sig=signature(dict(task=task, what='graph-value')), got=[float(v) for v in out], expected=exp, props={k: str(v) for k, v in props.items()})
    if not np.array_equal(x, keep):
        return dict(sig=signature(dict(task=task, what='raw-data-modified')), before=list(keep), after=list(x))
    return None


def _replay_sensor_purity(art):
    """float64 raw array through the real scale: must be unchanged afterwards"""
    import nptdms.scaling as sc
    from . import c17
    inner = art['task']['inner']
    inp = {k: c17._f(v) for k, v in art['inputs'].items() if k != 'root'}
    try:
        if inner['kind'] == 'strain':
            s = sc.StrainScaling(c17.BRIDGES[inner['bridge']], inp.get('nu', 0.3), inp.get('Rg', 350.0), inp.get('rl', 0.0), inp.get('V0', 0.0) if inner['v0'] else 0.0,
                                 inp.get('G', 2.0), inp.get('gain', 1.0), inp.get('Vex', 2.5), RAW)
        elif inner['kind'] == 'rtd':
            s = sc.RtdScaling(inp.get('I', 1e-3), inp.get('r0', 100.0), inp.get('a', 3.9083e-3), inp.get('b', -5.775e-7), -4.183e-12, inp.get('rl', 0.0), inner['cfg'], RAW)
        elif inner['kind'] == 'thermistor':
            s = sc.ThermistorScaling(sc.CURRENT_EXCITATION if inner['exc'] == 'current' else sc.VOLTAGE_EXCITATION, inp.get('ex', 1e-4), inner['cfg'],
                                     inp.get('r1', 1000.0), inp.get('rl', 0.0), inp.get('a', 1e-3), inp.get('b', 2e-4), inp.get('c', 1e-7), inp.get('off', 0.0), RAW)
        else:
            s = sc.PolynomialScaling([inp.get('c%d' % i, 1.0) for i in range(inner['n'])], RAW)
        arr = np.array([0.25, 0.5, 0.75], dtype='float64')
        keep = arr.copy()
        s.scale(arr)
    except Exception as e:
        return None
    if not np.array_equal(arr, keep):
        return dict(sig=signature(dict(task=art['task'], what='scale-modifies-raw-data', scale=art.get('scale'))), before=list(keep), after=[float(x) for x in arr])
    return None

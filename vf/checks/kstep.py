"""C02 inductive step: ONE segment's metadata processed from an ARBITRARY valid reader state.

Instead of exploring histories, the reader's inheritance state is made symbolic:

  pre-state (representation invariant INV, read off reader.TdmsReader._update_object_metadata and
  tdms_segment.TdmsSegment.read_segment_objects):
    * every known path p has a "most recent segment object" L[p] (reader._prev_segment_objects[p]) which is
      undefined (no raw data index ever seen: data_type None, has_data False), or defined with a type, a value count
      nv_p >= 0 (solver variable, unbounded) and data_size = nv_p * size, has_data either way;
    * the previous segment's ordered_objects is any ordered selection of known paths and holds exactly the
      objects L[p] (identity);
    * object_metadata[p].num_values = N_p >= 0 (solver variable), .data_type = L[p].data_type.
  step: one more segment (index-file form) whose flags (metadata, new object list), listed objects (any
    order), header kinds (explicit index with a new solver-variable count / matches-previous / no-data /
    unlisted / explicit index of another type), chunk count and offsets are solver-chosen, run through the REAL
    TdmsReader._read_segment_metadata + _update_object_metadata + _update_object_properties.
  post: (1) the new segment's object list, has_data, counts, types, sizes, chunk count and index equal the
    format's inheritance rules stated independently here; (2) FRAME: every pre-state object and the previous
    segment's list are untouched (no retroactive aliasing); (3) totals N_p grow by exactly the segment's values;
    (4) forbidden encodings raise ValueError and nothing else does; (5) INV holds again.
  (5) closes the induction: with the base case (no previous segment) the claim covers histories of ANY length over
  <= K paths.  Every pre-state satisfying INV is reachable by a real 3-segment history (constructed in replay(),
  which runs the real reader on real bytes), so counterexamples are replayable."""
import io
import itertools
import os
import struct
from collections import OrderedDict
import z3
from ..sx import explore, ex, SymInt, PathAbort
from ..stream import Builder, SymStream

PATHS = ["/'g'/'a'", "/'g'/'b'", "/'g'/'c'"]
PTYPES = [(3, 4), (2, 2), (10, 8)]            # per path: (tcode, size)
OTHER = [(4, 8), (3, 4), (9, 4)]              # "another type" per path
STATES = ['unknown', 'undef', 'def-hd', 'def-nohd']
KINDS = ['unlisted', 'full', 'same', 'nodata', 'fullT']
BUCKETS = ['step-ok', 'step-forbidden-rejected', 'step-base-case', 'step-carried-list', 'step-new-list', 'step-no-metadata',
           'step-same-after-nodata', 'step-type-change-rejected']


def tasks(tier):
    ts = []
    for st in itertools.product(range(4), repeat=2):
        ts.append(dict(kind='step', K=2, states=list(st), lazy=(sum(st) % 2 == 0), nkinds=5))
    if tier == 'thorough':
        for st in itertools.product(range(4), repeat=3):
            if sum(st) % 3 and len(set(st)) > 1:
                continue                # a third of the 64 pre-state combinations (each costs ~50 k paths)
            ts.append(dict(kind='step', K=3, states=list(st), lazy=(sum(st) % 2 == 1), nkinds=4))      # without the type change
    return ts


def _perms(items):
    return list(itertools.permutations(items))


def _choose_pre(task, choice):
    """(prev_list or None, states)"""
    K = task['K']
    states = [STATES[i] for i in task['states']]
    known = [k for k in range(K) if states[k] != 'unknown']
    member = [k for k in known if choice('in_prev%d' % k, 2)]
    if not known:
        has_prev = bool(choice('has_prev', 2))
        if not has_prev:
            return None, states
    perms = _perms(member)
    order = perms[choice('prev_order', len(perms))] if len(perms) > 1 else tuple(member)
    return list(order), states


def _choose_step(task, choice, prev_list):
    K = task['K']
    meta = True if prev_list is None else bool(choice('meta', 2))
    newobj = bool(choice('newobj', 2)) if meta else False
    kinds = {}
    listed = []
    if meta:
        for k in range(K):
            kinds[k] = KINDS[choice('kind%d' % k, task.get('nkinds', len(KINDS)))]
        listed = [k for k in range(K) if kinds[k] != 'unlisted']
        perms = _perms(listed)
        if len(perms) > 1:
            listed = list(perms[choice('list_order', len(perms))])
    nc = choice('nc', 3)
    return meta, newobj, kinds, listed, nc


def spec(states, prev_list, pre_nv, step, new_nv):
    """The inheritance rules, stated independently.  pre_nv[k], new_nv[k]: z3 terms.
    Returns ('error', reason) or ('ok', order, hd{k: bool}, idx{k: (tcode, size, nv term)})."""
    meta, newobj, kinds, listed, nc = step
    if prev_list is None and not meta:
        return ('error', 'no-metadata-first')
    idx = {}
    for k, s in enumerate(states):
        if s in ('def-hd', 'def-nohd'):
            idx[k] = (PTYPES[k][0], PTYPES[k][1], pre_nv[k])
    hd_prev = {k: states[k] == 'def-hd' for k in (prev_list or [])}
    if not meta:
        return ('ok', list(prev_list), dict(hd_prev), idx)
    order = [] if (newobj or prev_list is None) else list(prev_list)
    hd = {} if (newobj or prev_list is None) else dict(hd_prev)
    for k in listed:
        kind = kinds[k]
        if kind in ('full', 'fullT'):
            t = PTYPES[k] if kind == 'full' else OTHER[k]
            if k in idx and idx[k][0] != t[0]:
                pass            # type change: rejected when the totals are updated (below)
            idx_new = (t[0], t[1], new_nv[k])
            if states[k] in ('def-hd', 'def-nohd') and t[0] != PTYPES[k][0]:
                return ('error', 'type-change')
            idx[k] = idx_new
            hd[k] = True
        elif kind == 'same':
            if k not in idx:
                return ('error', 'same-undefined')
            hd[k] = True
        else:
            hd[k] = False
        if k not in order:
            order.append(k)
    return ('ok', order, hd, idx)


def _first_error(states, prev_list, step):
    """which error the reader meets first: read_segment_objects walks the listed objects in order ('same' on an object without
    index); the type check happens afterwards in _update_object_metadata"""
    meta, newobj, kinds, listed, nc = step
    if prev_list is None and not meta:
        return 'no-metadata-first'
    for k in listed:
        if kinds[k] == 'same' and states[k] in ('unknown', 'undef'):
            return 'same-undefined'
    for k in listed:
        if kinds[k] == 'fullT' and states[k] in ('def-hd', 'def-nohd'):
            return 'type-change'
    return None


def run_task(task):
    K = task['K']

    def fn(ctx):
        from nptdms import types
        from nptdms.reader import TdmsReader, ObjectMetadata
        from nptdms.tdms_segment import TdmsSegment, TdmsSegmentObject, SegmentIndexCache
        prev_list, states = _choose_pre(task, ctx.choice)
        step = _choose_step(task, ctx.choice, prev_list)
        meta, newobj, kinds, listed, nc = step
        # ---- symbolic pre-state
        r = TdmsReader.__new__(TdmsReader)
        r._file_path = None
        r._index_file_path = None
        r._file = None
        r._segments = []
        r._prev_segment_objects = {}
        r.object_metadata = OrderedDict()
        r._segment_channel_offsets = {}
        r.tdms_version = None
        r._data_file_size = None
        index_cache = SegmentIndexCache() if task.get('lazy') else None
        L, pre_nv, pre_N = {}, {}, {}
        for k in range(K):
            if states[k] == 'unknown':
                continue
            o = TdmsSegmentObject(PATHS[k])
            md = ObjectMetadata()
            if states[k] != 'undef':
                nv = ctx.int('pre_nv%d' % k, 0, 2 ** 40)
                o.data_type = types.tds_data_types[PTYPES[k][0]]
                o.number_values = nv
                o.data_size = nv * PTYPES[k][1]
                o.has_data = states[k] == 'def-hd'
                md.data_type = o.data_type
                pre_nv[k] = ex(nv)
            N = ctx.int('pre_N%d' % k, 0, 2 ** 50)
            md.num_values = N
            pre_N[k] = ex(N)
            L[k] = o
            r._prev_segment_objects[PATHS[k]] = o
            r.object_metadata[PATHS[k]] = md
        P = ctx.int('pos', 0, 2 ** 50)
        prev = None
        if prev_list is not None:
            prev = TdmsSegment(0, 2 | 4 | 8, P, 0, False)
            prev.ordered_objects = [L[k] for k in prev_list]
            prev.num_chunks = 1
            if index_cache is not None:
                prev.object_index = index_cache.get_index(prev.ordered_objects)
        snapshot = {k: (L[k], L[k].has_data, L[k].number_values, L[k].data_size, L[k].data_type) for k in L}
        prev_snapshot = list(prev.ordered_objects) if prev is not None else None
        prev_index_snapshot = dict(prev.object_index) if (prev is not None and prev.object_index is not None) else None
        # ---- the step segment (index-file form: lead-in + metadata, no raw data)
        new_nv = {}
        b = Builder()
        b.raw(b'TDSh')
        toc = (2 if meta else 0) | (4 if (newobj and meta) else 0) | 8
        b.field(toc, 4, '<')
        b.field(4713, 4, '<')
        nso = ctx.int('nso', 0, 2 ** 62)
        rdo = ctx.int('rdo', 0, 2 ** 62)
        b.field(nso, 8, '<')
        b.field(rdo, 8, '<')
        m0 = b.pos
        if meta:
            b.field(len(listed), 4, '<')
            for k in listed:
                pb = PATHS[k].encode()
                b.field(len(pb), 4, '<')
                b.raw(pb)
                kind = kinds[k]
                if kind in ('full', 'fullT'):
                    t = PTYPES[k] if kind == 'full' else OTHER[k]
                    nv = ctx.int('nv%d' % k, 0, 2 ** 40)
                    new_nv[k] = ex(nv)
                    b.field(20, 4, '<')
                    b.field(t[0], 4, '<')
                    b.field(1, 4, '<')
                    b.field(nv, 8, '<')
                elif kind == 'same':
                    b.field(0, 4, '<')
                else:
                    b.field(0xFFFFFFFF, 4, '<')
                b.field(0, 4, '<')
        meta_len = b.pos - m0
        sp = spec(states, prev_list, pre_nv, step, new_nv)
        want_err = _first_error(states, prev_list, step)
        if sp[0] == 'ok':
            _, order, hd, idx = sp
            chunk = sum((idx[k][2] * idx[k][1] for k in order if hd.get(k)), z3.IntVal(0))
            ctx.add(ex(rdo) == meta_len)
            ctx.add(ex(nso) == meta_len + chunk * nc)
            if nc > 0:
                ctx.add(chunk > 0)
        else:
            ctx.add(ex(rdo) == meta_len)
            ctx.add(ex(nso) == meta_len)
        f = SymStream(b.regions)
        r._index_file = f
        # ---- run the real code
        err = None
        try:
            segment, properties = r._read_segment_metadata(f, P, index_cache, prev, True)
            r._update_object_metadata(segment)
            r._update_object_properties(properties)
        except ValueError as e:
            err = ('ValueError', str(e)[:100])
        except Exception as e:
            ctx.fail('step-exception', exc=type(e).__name__, msg=str(e)[:100])
        ctx.obligations += 1
        if want_err is not None:
            if err is None:
                ctx.fail('step-forbidden-accepted', reason=want_err)
            ctx.discharged += 1
            ctx.note('step-type-change-rejected' if want_err == 'type-change' else 'step-forbidden-rejected')
            _frame(ctx, L, snapshot, prev, prev_snapshot, prev_index_snapshot)
            return
        if err is not None:
            ctx.fail('step-valid-rejected', exc=err[0], msg=err[1])
        ctx.discharged += 1
        _, order, hd, idx = sp
        problems = post_check(r, segment, prev, K, states, L, order, hd, idx, pre_N, nc, chunk, P, meta_len, bool(task.get('lazy')),
                              lambda p, d, w: ctx.prove(p, d, what=w), ctx.fail)
        _frame(ctx, L, snapshot, prev, prev_snapshot, prev_index_snapshot, replaced=set(listed) if meta else set())
        ctx.note('step-ok')
        if prev_list is None:
            ctx.note('step-base-case')
        elif not meta:
            ctx.note('step-no-metadata')
        elif newobj:
            ctx.note('step-new-list')
        else:
            ctx.note('step-carried-list')
        if any(kinds.get(k) == 'same' and states[k] == 'def-nohd' for k in listed):
            ctx.note('step-same-after-nodata')

    st = explore(fn, max_paths=400000, time_budget=1500, keep_samples=int(os.environ.get('VF_KEEP_SAMPLES', 3)))
    st.pop('wall_s', None)
    return st


def _frame(ctx, L, snapshot, prev, prev_snapshot, prev_index_snapshot, replaced=()):
    """no retroactive change: the objects of the pre-state and the previous segment are exactly as before"""
    conj = []
    for k, (o, hd, nv, ds, dt) in snapshot.items():
        if o.has_data is not hd and bool(o.has_data) != bool(hd):
            ctx.fail('step-frame-has-data', path=PATHS[k], before=bool(hd), after=bool(o.has_data))
        if o.data_type is not dt:
            ctx.fail('step-frame-data-type', path=PATHS[k])
        conj.append(ex(o.number_values) == ex(nv))
        conj.append(ex(o.data_size) == ex(ds))
    if prev is not None:
        if len(prev.ordered_objects) != len(prev_snapshot) or any(not _same_object(a, b, conj) for a, b in zip(prev.ordered_objects, prev_snapshot)):
            ctx.fail('step-frame-previous-list', before=[o.path for o in prev_snapshot], after=[o.path for o in prev.ordered_objects])
        if prev_index_snapshot is not None and dict(prev.object_index) != prev_index_snapshot:
            ctx.fail('step-frame-previous-index')
    if conj:
        ctx.prove(z3.And(*conj), what='step-frame-index')


def _t(x):
    return x if z3.is_expr(x) else ex(x)


def _same_object(a, b, conj):
    """a and b describe the same segment object (by value: another implementation may keep copies); numeric equalities go to conj"""
    if a is b:
        return True
    if a is None or b is None or a.path != b.path or bool(a.has_data) != bool(b.has_data) or a.data_type is not b.data_type:
        return False
    conj.append(ex(a.number_values) == ex(b.number_values))
    conj.append(ex(a.data_size) == ex(b.data_size))
    return True


def post_check(r, segment, prev, K, states, L, order, hd, idx, pre_N, nc, chunk, P, meta_len, lazy, prove, fail):
    got_paths = [o.path for o in segment.ordered_objects]
    if got_paths != [PATHS[k] for k in order]:
        fail('step-object-list', got=got_paths, expected=[PATHS[k] for k in order])
    conj = []
    for o, k in zip(segment.ordered_objects, order):
        if bool(o.has_data) != bool(hd[k]):
            fail('step-has-data', path=o.path, got=bool(o.has_data), expected=bool(hd[k]))
        if k in idx:
            if o.data_type is None or o.data_type.enum_value != idx[k][0]:
                fail('step-data-type', path=o.path, got=None if o.data_type is None else o.data_type.enum_value, expected=idx[k][0])
            conj.append(ex(o.number_values) == idx[k][2])
            conj.append(ex(o.data_size) == idx[k][2] * idx[k][1])
        else:
            if o.data_type is not None or o.has_data:
                fail('step-undefined-object-has-index', path=o.path)
        # INV again: the reader's most recent object for the path is this one
        if not _same_object(r._prev_segment_objects.get(o.path), o, conj):
            fail('step-inv-most-recent-object', path=o.path)
    for k in range(K):
        p = PATHS[k]
        if k in order:
            md = r.object_metadata.get(p)
            if md is None:
                fail('step-missing-object', path=p)
            add = idx[k][2] * nc if hd[k] else z3.IntVal(0)
            conj.append(ex(md.num_values) == pre_N.get(k, z3.IntVal(0)) + add)
            want_t = idx[k][0] if k in idx else None
            got_t = None if md.data_type is None else md.data_type.enum_value
            if got_t != want_t:
                fail('step-total-data-type', path=p, got=got_t, expected=want_t)
        elif states[k] != 'unknown':
            if not _same_object(r._prev_segment_objects.get(p), L[k], conj):
                fail('step-inv-unlisted-object-replaced', path=p)
            conj.append(ex(r.object_metadata[p].num_values) == pre_N[k])
        else:
            if p in r.object_metadata or p in r._prev_segment_objects:
                fail('step-object-invented', path=p)
    conj.append(ex(segment.position) == _t(P))
    conj.append(ex(segment.data_position) == _t(P) + 28 + meta_len)
    conj.append(ex(segment.next_segment_pos) == _t(P) + 28 + meta_len + _t(chunk) * nc)
    conj.append(z3.Implies(_t(chunk) > 0, ex(segment.num_chunks) == nc))
    if segment.final_chunk_lengths_override is not None:
        fail('step-final-chunk-override-on-complete-segment')
    if lazy:
        if segment.object_index is None or dict(segment.object_index) != {PATHS[k]: i for i, k in enumerate(order)}:
            fail('step-object-index', got=None if segment.object_index is None else dict(segment.object_index))
    prove(z3.And(*conj), dict(), 'step-index-lengths-positions')


def signature(pid, c):
    what = c.get('what', '')
    if what == 'step-exception':
        what = 'step-exception:%s' % c.get('exc')
    return '%s/step/%s' % (pid, what)


# ------------------------------------------------------------------------------------------- replay on real bytes
def _seg_bytes(listed, nso, tag=b'TDSh', newobj=True, meta=True):
    """listed: [(path, header kind, tcode, nv)]"""
    body = b''
    if meta:
        body += struct.pack('<L', len(listed))
        for (p, kind, tcode, nv) in listed:
            pb = p.encode()
            body += struct.pack('<L', len(pb)) + pb
            if kind == 'full':
                body += struct.pack('<LLLQ', 20, tcode, 1, nv)
            elif kind == 'same':
                body += struct.pack('<L', 0)
            else:
                body += struct.pack('<L', 0xFFFFFFFF)
            body += struct.pack('<L', 0)
    toc = (2 if meta else 0) | (4 if (newobj and meta) else 0) | 8
    return tag + struct.pack('<lLQQ', toc, 4713, len(body) + nso, len(body)) + body


def _mk_reader(index_bytes):
    from nptdms.reader import TdmsReader
    r = TdmsReader.__new__(TdmsReader)
    r._file_path = None
    r._index_file_path = None
    r._file = None
    r._index_file = io.BytesIO(index_bytes)
    r._segments = None
    r._prev_segment_objects = {}
    r.object_metadata = OrderedDict()
    r._segment_channel_offsets = {}
    r.tdms_version = None
    r._data_file_size = None
    return r


def replay(pid, art):
    """Builds a REAL history (index-form file) that reaches the pre-state, appends the step segment, runs the real
    TdmsReader.read_metadata on the bytes and checks the same post-conditions concretely."""
    from nptdms.reader import TdmsReader
    task, inp = art['task'], art['inputs']
    K = task['K']
    choice = lambda name, n: inp.get(name, 0)
    prev_list, states = _choose_pre(task, choice)
    step = _choose_step(task, choice, prev_list)
    meta, newobj, kinds, listed, nc = step
    pre_nv = {k: inp.get('pre_nv%d' % k, 0) for k in range(K) if states[k] in ('def-hd', 'def-nohd')}
    new_nv = {k: inp.get('nv%d' % k, 0) for k in listed if kinds[k] in ('full', 'fullT')}
    data = b''
    P = 0
    history = 0
    if prev_list is not None:
        defined = [k for k in range(K) if states[k] in ('def-hd', 'def-nohd')]
        s1_ = [(PATHS[k], 'full', PTYPES[k][0], pre_nv[k]) for k in defined]
        c1 = sum(pre_nv[k] * PTYPES[k][1] for k in defined)
        data += _seg_bytes(s1_, c1)
        others = [k for k in range(K) if states[k] != 'unknown' and k not in prev_list]
        s2 = [(PATHS[k], 'same' if states[k] == 'def-hd' else 'nodata', 0, 0) for k in others]
        c2 = sum(pre_nv[k] * PTYPES[k][1] for k in others if states[k] == 'def-hd')
        data += _seg_bytes(s2, c2)
        s3 = [(PATHS[k], 'same' if states[k] == 'def-hd' else 'nodata', 0, 0) for k in prev_list]
        c3 = sum(pre_nv[k] * PTYPES[k][1] for k in prev_list if states[k] == 'def-hd')
        data += _seg_bytes(s3, c3)
        P = len(data) + c1 + c2 + c3          # position in the (absent) data file
        history = 3
    sp = spec(states, prev_list, {k: z3.IntVal(v) for k, v in pre_nv.items()}, step, {k: z3.IntVal(v) for k, v in new_nv.items()})
    want_err = _first_error(states, prev_list, step)
    lst = []
    for k in listed:
        kind = kinds[k]
        if kind in ('full', 'fullT'):
            lst.append((PATHS[k], 'full', (PTYPES[k] if kind == 'full' else OTHER[k])[0], new_nv[k]))
        else:
            lst.append((PATHS[k], kind, 0, 0))
    if sp[0] == 'ok':
        _, order, hd, idx = sp
        chunk = sum(z3.simplify(idx[k][2]).as_long() * idx[k][1] for k in order if hd.get(k))
        if nc > 0 and chunk == 0:
            return None
        data_step = _seg_bytes(lst, chunk * nc, newobj=newobj, meta=meta)
    else:
        chunk = 0
        data_step = _seg_bytes(lst, 0, newobj=newobj, meta=meta)
    r = _mk_reader(data + data_step)
    r0 = _mk_reader(data)           # state of the history alone, for the frame condition
    lazy = bool(task.get('lazy'))
    if history:
        r0.read_metadata(require_segment_indexes=lazy)
    err = None
    try:
        r.read_metadata(require_segment_indexes=lazy)
    except ValueError as e:
        err = repr(e)[:160]
    except Exception as e:
        return dict(sig=signature(pid, dict(task=task, what='step-exception', exc=type(e).__name__)), exception=repr(e)[:200])
    if want_err is not None:
        if err is None:
            return dict(sig=signature(pid, dict(task=task, what='step-forbidden-accepted')), reason=want_err,
                        index_file_hex=(data + data_step).hex())
        return None
    if err is not None:
        return dict(sig=signature(pid, dict(task=task, what='step-valid-rejected')), exception=err, index_file_hex=(data + data_step).hex())
    if len(r._segments) != history + 1:
        return dict(sig=signature(pid, dict(task=task, what='step-object-list')), note='segment count', got=len(r._segments))
    segment = r._segments[-1]
    prevseg = r._segments[-2] if history else None
    out = []

    class Stop(Exception):
        pass

    def fail(what, **kw):
        out.append(dict(sig=signature(pid, dict(task=task, what=what)), **kw))
        raise Stop()

    def prove(p, d, w):
        if not z3.is_true(z3.simplify(p)):
            out.append(dict(sig=signature(pid, dict(task=task, what=w)), **d))
            raise Stop()
    _, order, hd, idx = sp
    Lr = {}
    if history:
        # the pre-state objects as the real history left them (from the history-only reader: same bytes, same objects by value)
        for k in range(K):
            if states[k] != 'unknown':
                Lr[k] = r0._prev_segment_objects[PATHS[k]]
    try:
        # frame: the previous segment (index history-1) of the full read equals the history-only read, field by field
        if history:
            for sa, sb in zip(r._segments[:history], r0._segments):
                la = [(o.path, bool(o.has_data), int(o.number_values), int(o.data_size), o.data_type) for o in sa.ordered_objects]
                lb = [(o.path, bool(o.has_data), int(o.number_values), int(o.data_size), o.data_type) for o in sb.ordered_objects]
                if la != lb:
                    fail('step-frame-previous-list', before=str(lb), after=str(la))
        pre_N = {k: z3.IntVal(int(r0.object_metadata[PATHS[k]].num_values)) for k in range(K) if PATHS[k] in r0.object_metadata}
        # identity parts of INV cannot be compared across two readers: compare by value through a shim
        Lfull = {k: r._prev_segment_objects.get(PATHS[k]) for k in range(K)}
        for k in range(K):
            if states[k] != 'unknown' and k not in order:
                # unlisted known object: still the history's object (by value)
                a, b_ = Lfull[k], Lr[k]
                if (a.path, bool(a.has_data), int(a.number_values), a.data_type) != (b_.path, bool(b_.has_data), int(b_.number_values), b_.data_type):
                    fail('step-inv-unlisted-object-replaced', path=PATHS[k])
        post_check(r, segment, prevseg, K, states, Lfull, order, hd, idx, pre_N, nc, z3.IntVal(chunk), z3.IntVal(P),
                   len(data_step) - 28, lazy, prove, fail)
    except Stop:
        o = out[0]
        o['index_file_hex'] = (data + data_step).hex()
        return o
    return None

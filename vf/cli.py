import argparse
import os
import sys


def main(argv=None):
    ap = argparse.ArgumentParser(prog='vcheck')
    ap.add_argument('property', nargs='?')
    ap.add_argument('--tier', default=os.environ.get('VERIF_TIER', 'quick'), choices=['quick', 'thorough'])
    ap.add_argument('--replay')
    ap.add_argument('--replay-batch', nargs=2)
    ap.add_argument('--selftest', action='store_true')
    a = ap.parse_args(argv)
    seed = int(os.environ.get('VERIF_SEED', '0') or 0)
    from . import runner
    if a.replay_batch:
        runner.do_replay_batch(*a.replay_batch)
        return 0
    if a.replay:
        return runner.replay_file(a.replay)
    if a.selftest:
        from . import selftest
        return selftest.main()
    if not a.property:
        ap.error('property id required')
    return runner.run_check(a.property.upper(), a.tier, seed)


if __name__ == '__main__':
    sys.exit(main())

"""Seeded random generator of well-formed file shapes (for the thorough tiers).  All randomness derives
from the seed handed in (VERIF_SEED); the shapes only pick *which* files are explored - what is decided
on each file is still decided by the solver."""
import random
from . import s1, tdmsmodel as tm

A, B, C = "/'g'/'a'", "/'g'/'b'", "/'h'/'c'"
TYPES = [3, 3, 2, 4, 10, 9, 8, 1, 0x21, 0x44, 0x20, 0x08000c, 0x1A]
PROPS = [['i', 3, -7], ['u', 8, 2 ** 63 + 9], ['d', 10, 0.25], ['s', 0x20, 'grüß/gott'], ['t', 0x44, [123456, 2 ** 61]], ['b', 0x21, False],
         ['h', 2, -2], ['e', 0x20, '']]


def random_shape(rnd, need_a=True, allow_trunc=True, max_segments=4):
    """one candidate shape (may be invalid: the caller filters with tm.encode)"""
    inter = rnd.random() < 0.2
    paths = [A, B] + ([C] if rnd.random() < 0.4 else [])
    tcs = {}
    for p in paths:
        t = rnd.choice(TYPES)
        if inter and t == 0x20:
            t = 3
        tcs[p] = t
    S = rnd.randint(1, max_segments)
    last_nv = {}
    shape = []
    for si in range(S):
        meta = True if si == 0 else rnd.random() < 0.85
        newobj = True if si == 0 else rnd.random() < 0.6
        nchunks = rnd.randint(1, 3)
        big = rnd.random() < 0.3
        objs = []
        if meta:
            order = list(paths)
            if newobj or rnd.random() < 0.5:
                rnd.shuffle(order)
            nv_inter = rnd.randint(1, 3)
            for p in order:
                r = rnd.random()
                if si == 0 and p == A and need_a:
                    kind = 'full'
                elif r < 0.45:
                    kind = 'full'
                elif r < 0.6 and p in last_nv:
                    kind = 'same'
                elif r < 0.75:
                    kind = 'nodata'
                else:
                    continue
                props = [rnd.choice(PROPS)] if rnd.random() < 0.3 else []
                if kind == 'full':
                    nv = nv_inter if inter else (last_nv[p] if (p in last_nv and rnd.random() < 0.4) else rnd.randint(0, 3))
                    last_nv[p] = nv
                    objs.append([p, 'full', tcs[p], nv, props])
                else:
                    objs.append([p, kind, tcs[p], 0, props])
            if rnd.random() < 0.3:
                objs.insert(rnd.randint(0, len(objs)), ["/'g'", 'nodata', 0, 0, [rnd.choice(PROPS)]])
            if rnd.random() < 0.2:
                objs.insert(rnd.randint(0, len(objs)), ['/', 'nodata', 0, 0, [rnd.choice(PROPS)]])
        d = s1.seg(objs, nchunks, meta=meta, newobj=newobj, inter=inter, big=big)
        if not meta and rnd.random() < 0.5:
            d['pad'] = rnd.choice([1, 4, 9])
        shape.append(d)
    if allow_trunc and rnd.random() < 0.25:
        if rnd.random() < 0.5:
            shape[-1]['trunc'] = rnd.randint(1, 12)
        else:
            shape[-1]['unknown_len'] = True
    return shape


def random_family(seed, n, need_a=True, allow_trunc=True, max_segments=4, require=None):
    rnd = random.Random(7919 * (seed + 1))
    out, tries = [], 0
    while len(out) < n and tries < 60 * n:
        tries += 1
        sh = random_shape(rnd, need_a, allow_trunc, max_segments)
        try:
            enc = s1.build(sh)
        except tm.Invalid:
            continue
        except Exception:
            continue
        if any(x.get('trunc') for x in sh):
            if any(tm.TYPES[t][1] is None for sg in enc.segs for (_, t, _) in sg['objs']):
                continue
            if enc.segs[-1]['chunk_size'] == 0 or sh[-1]['trunc'] >= enc.segs[-1]['chunk_size'] * enc.segs[-1]['nchunks']:
                continue
        if any(x.get('unknown_len') for x in sh):
            last = enc.segs[-1]
            if last['chunk_size'] == 0 or (any(t == 0x20 for (_, t, _) in last['objs']) and last['nchunks'] > 1):
                continue
        if need_a and (A not in enc.channels or enc.channels[A].tcode is None):
            continue
        if require is not None and not require(sh, enc):
            continue
        out.append(sh)
    return out

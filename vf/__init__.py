"""vf -- solver-based checking of npTDMS (see /verif/DESIGN.md)."""

"""Call dispatcher for the instrumented nptdms modules: identity on concrete arguments, models
for C-level callees on symbolic ones.  Also counts entries into nptdms functions (evidence)."""
import logging
import struct as _struct
import numpy as np
import z3
from . import loader
from .sx import Ctx, SymInt, SymBool, is_sym, ex, mk_bool, Inconclusive
from .sxstr import SymStr, SymChar, _items
from .stream import SymBytes, SymByte, sym_pack, sym_unpack, join_bytes

COUNTS = {}
OVERRIDES = {}        # function object -> replacement, applied to every call (environment models such as open())
EXTRA = []           # additional models registered by checks: fn(f, a, k) -> (handled, result)
_SYM = (SymInt, SymBool, SymStr, SymChar, SymBytes)

try:
    from .sxreal import SymReal
    _SYM = _SYM + (SymReal,)
except ImportError:      # pragma: no cover
    SymReal = ()


def _has_sym(a, k):
    for x in a:
        if isinstance(x, _SYM):
            return True
        if isinstance(x, np.ndarray) and x.dtype == object:
            return True
        if type(x) in (list, tuple):
            for y in x:
                if isinstance(y, _SYM):
                    return True
    for x in k.values():
        if isinstance(x, _SYM):
            return True
    return False


def _sym_range(*a):
    if len(a) == 1:
        start, stop, step = 0, a[0], 1
    elif len(a) == 2:
        start, stop, step = a[0], a[1], 1
    else:
        start, stop, step = a
    if isinstance(step, SymInt):
        step = int(step)
    if isinstance(start, SymInt):
        start = int(start)
    i = start
    if step > 0:
        while i < stop:
            yield i
            i += step
    else:
        while i > stop:
            yield i
            i += step


def _searchsorted(arr, v, side='left', sorter=None):
    lo = 0
    for x in arr:
        x = int(x)
        if (x <= v) if side == 'right' else (x < v):
            lo += 1
        else:
            break
    return lo


def _isinstance(x, t):
    ts = t if isinstance(t, tuple) else (t,)
    for c in ts:
        if isinstance(x, SymInt) and c is int:
            return True
        if isinstance(x, SymBool) and c in (bool, int):
            return True
        if isinstance(x, (SymStr, SymChar)) and c is str:
            return True
        if isinstance(x, SymBytes) and c is bytes:
            return True
        if SymReal and isinstance(x, SymReal) and c is float:
            return True
    return isinstance(x, t)


def sx_call(f, *a, **k):
    mod = getattr(f, '__module__', None)
    if mod is not None and mod.__class__ is str and mod.startswith('nptdms'):
        q = getattr(f, '__qualname__', None)
        if q is not None:
            key = mod + ':' + q
            COUNTS[key] = COUNTS.get(key, 0) + 1
    if OVERRIDES:
        try:
            r = OVERRIDES.get(f)
        except TypeError:
            r = None
        if r is not None:
            return r(*a, **k)
    s = getattr(f, '__self__', None)
    if s.__class__ is bytes and getattr(f, '__name__', '') == 'join' and len(a) == 1:
        parts = list(a[0])              # a generator may yield symbolic bytes
        if any(isinstance(p, SymBytes) for p in parts):
            return join_bytes(s, parts)
        return s.join(parts)
    if f is str and len(a) == 1 and not k and getattr(type(a[0]), '__module__', '').startswith('nptdms'):
        r = type(a[0]).__str__(a[0])          # str() insists on a real str; the object may render symbolically
        return r if isinstance(r, SymStr) else str(r)
    if not _has_sym(a, k) and not isinstance(s, _SYM):
        return f(*a, **k)
    for m in EXTRA:
        handled, r = m(f, a, k)
        if handled:
            return r
    if f is int and len(a) == 1:
        x = a[0]
        if isinstance(x, SymInt):
            return x
        if isinstance(x, SymBool):
            return SymInt.mk(z3.If(x.e, 1, 0))
    if f is isinstance:
        return _isinstance(*a)
    if f is range:
        return _sym_range(*a)
    if f is np.searchsorted:
        return _searchsorted(*a, **k)
    if f is _struct.unpack:
        return sym_unpack(*a)
    if f is _struct.pack:
        return sym_pack(*a)
    if isinstance(s, logging.Logger):
        return None
    if isinstance(s, (bytes, bytearray)) and getattr(f, '__name__', '') == 'join':
        return join_bytes(s, list(a[0]))
    if isinstance(s, str):
        name = getattr(f, '__name__', '')
        if name == 'join':
            parts = list(a[0])
            out = []
            for i, p in enumerate(parts):
                if i:
                    out.extend(s)
                out.extend(_items(p))
            return SymStr(out)
        if name == 'format':
            return s + ' <symbolic arguments>'
    if f is str and len(a) == 1 and not isinstance(a[0], (str, int, float, bytes)):
        if isinstance(a[0], SymStr):
            return a[0]
        if isinstance(a[0], (SymInt, SymBool)):
            return '<sym>'
        return type(a[0]).__str__(a[0])
    if f is repr or f is hex:
        return '<sym>'
    if f is len and isinstance(a[0], (SymStr, SymBytes)):
        return len(a[0].items)
    if f is bool and len(a) == 1 and isinstance(a[0], SymBool):
        return a[0]
    return f(*a, **k)


def _fmt_part(v):
    if isinstance(v, _SYM):
        return True
    if type(v) in (list, tuple):
        return any(isinstance(y, _SYM) for y in v)
    return False


def sx_mod(fmt, arg):
    if _fmt_part(arg):
        return fmt + ' <symbolic arguments>'
    return fmt % arg


def sx_fstr(*parts):
    out = []
    for p in parts:
        if isinstance(p, str):
            out.append(p)
            continue
        v, conv, spec = p
        if isinstance(v, _SYM):
            out.append('<sym>')
            continue
        if conv == ord('r'):
            v = repr(v)
        elif conv == ord('s'):
            v = str(v)
        elif conv == ord('a'):
            v = ascii(v)
        out.append(format(v, spec) if spec else format(v))
    return ''.join(out)


def install():
    loader.install(sx_call, sx_mod, sx_fstr)


def functions_entered(prefix='nptdms'):
    return {k: v for k, v in sorted(COUNTS.items()) if k.startswith(prefix)}

"""Exact IEEE-754 world for the timestamp kernels (QF_BVFP) plus a sound rounding-error
abstraction over the reals for the 64-bit universals.

Exact mode
  FInt   : Python int modelled as a signed bit-vector of W bits (W large enough for every value
           the timestamp code can produce from the stated input ranges; overflow of W is asserted
           impossible by the harness through range side conditions).
  FFloat : float64 term.  int -> float is round-to-nearest-even, float -> int truncates, as in
           CPython / NumPy.
  SymDT64 / SymTD : stand-ins for np.datetime64[us] / np.timedelta64 values (integer microsecond
           counts) -- a stub of NumPy's datetime arithmetic, listed as such in the evidence.

Abstract mode
  AFloat : real value with one fresh relative-error variable per floating-point operation,
           |e| <= 2^-53 (inputs and results are normal doubles in the ranges used; stated).
"""
import os
import subprocess
import tempfile
import time
import numpy as np
import z3
from fractions import Fraction

W = 80
RNE, RTZ = z3.RNE(), z3.RTZ()
F64 = z3.Float64()


def bv(v):
    if isinstance(v, FInt):
        return v.e
    if isinstance(v, (int, np.integer)):
        return z3.BitVecVal(int(v), W)
    raise TypeError(type(v))


class FBool:
    def __init__(self, e):
        self.e = e

    def __bool__(self):
        from .sx import Ctx
        return Ctx.cur.branch(self.e)


class FInt:
    __array_ufunc__ = None

    def __init__(self, e):
        self.e = e

    def __add__(self, o):
        return FInt(self.e + bv(o))
    __radd__ = __add__

    def __sub__(self, o):
        return FInt(self.e - bv(o))

    def __rsub__(self, o):
        return FInt(bv(o) - self.e)

    def __neg__(self):
        return FInt(-self.e)

    def __mul__(self, o):
        if isinstance(o, (float, np.floating)):
            return FFloat(z3.fpMul(RNE, self.to_fp(), fpval(o)))
        if isinstance(o, FFloat):
            return FFloat(z3.fpMul(RNE, self.to_fp(), o.e))
        return FInt(self.e * bv(o))
    __rmul__ = __mul__

    def __truediv__(self, o):
        if isinstance(o, (float, np.floating)):
            return FFloat(z3.fpDiv(RNE, self.to_fp(), fpval(o)))
        if isinstance(o, FFloat):
            return FFloat(z3.fpDiv(RNE, self.to_fp(), o.e))
        if isinstance(o, (int, np.integer, FInt)):
            r = FFloat(z3.fpDiv(RNE, self.to_fp(), z3.fpSignedToFP(RNE, bv(o), F64)))
            if isinstance(o, (int, np.integer)) and int(o) == 1:
                r.int_src = self          # x / 1 of an integer: exact for |x| < 2^53 (lemma, checked by the caller)
            return r
        return NotImplemented

    def to_fp(self):
        return z3.fpSignedToFP(RNE, self.e, F64)

    def _divmod_const(self, o):
        if not isinstance(o, (int, np.integer)) or int(o) <= 0:
            return None
        o = z3.BitVecVal(int(o), W)
        # Python floor semantics for a positive divisor (signed bit-vector division truncates)
        q0 = self.e / o
        r0 = z3.SRem(self.e, o)
        adj = z3.And(r0 != 0, self.e < 0)
        return FInt(z3.If(adj, q0 - 1, q0)), FInt(z3.If(adj, r0 + o, r0))

    def __divmod__(self, o):
        r = self._divmod_const(o)
        return NotImplemented if r is None else r

    def __floordiv__(self, o):
        r = self._divmod_const(o)
        return NotImplemented if r is None else r[0]

    def __mod__(self, o):
        r = self._divmod_const(o)
        return NotImplemented if r is None else r[1]

    def __lt__(self, o):
        return FBool(self.e < bv(o))

    def __le__(self, o):
        return FBool(self.e <= bv(o))

    def __gt__(self, o):
        return FBool(self.e > bv(o))

    def __ge__(self, o):
        return FBool(self.e >= bv(o))

    def __eq__(self, o):
        return FBool(self.e == bv(o))

    def __ne__(self, o):
        return FBool(self.e != bv(o))

    __hash__ = None

    def __repr__(self):
        return "<fint>"


def fpval(x):
    return z3.FPVal(float(x), F64)


class FFloat:
    __array_ufunc__ = None
    int_src = None

    def __init__(self, e):
        self.e = e

    def _o(self, o):
        if isinstance(o, FFloat):
            return o.e
        if isinstance(o, (float, np.floating)):
            return fpval(o)
        if isinstance(o, (int, np.integer)):
            return fpval(float(int(o)))
        if isinstance(o, FInt):
            return o.to_fp()
        return None

    def __mul__(self, o):
        if isinstance(o, np.timedelta64):
            # NumPy: float * timedelta64 -> timedelta64 with the product cast to int64 (truncation)
            unit = np.datetime_data(o.dtype)[0]
            k = int(o.astype('int64'))
            prod = self.e if k == 1 else z3.fpMul(RNE, self.e, fpval(float(k)))
            return SymTD(FInt(z3.fpToSBV(RTZ, prod, z3.BitVecSort(W))), unit)
        r = self._o(o)
        return NotImplemented if r is None else FFloat(z3.fpMul(RNE, self.e, r))
    __rmul__ = __mul__

    def __truediv__(self, o):
        r = self._o(o)
        return NotImplemented if r is None else FFloat(z3.fpDiv(RNE, self.e, r))

    def __rtruediv__(self, o):
        r = self._o(o)
        return NotImplemented if r is None else FFloat(z3.fpDiv(RNE, r, self.e))

    def __add__(self, o):
        r = self._o(o)
        return NotImplemented if r is None else FFloat(z3.fpAdd(RNE, self.e, r))
    __radd__ = __add__

    def __sub__(self, o):
        r = self._o(o)
        return NotImplemented if r is None else FFloat(z3.fpSub(RNE, self.e, r))

    def trunc_int(self):
        """int(float): (1) float(x)/1 of an integer below 2^53 is x; (2) if at most two values are feasible on
        this path, fork over them (keeps later terms small); (3) otherwise the symbolic truncation."""
        from .sx import Ctx
        ctx = Ctx.cur
        t = z3.fpToSBV(RTZ, self.e, z3.BitVecSort(W))
        if self.int_src is not None:
            x = self.int_src.e
            lim = z3.BitVecVal(2 ** 53, W)
            if not ctx.check(z3.Not(z3.And(x < lim, x > -lim))):
                return self.int_src
        vals = []
        for _ in range(2):
            cons = [t != v for v in vals]
            if not ctx.check(z3.And(*cons) if cons else None):
                break
            vals.append(ctx.solver.model().eval(t, model_completion=True).as_signed_long())
        else:
            if ctx.check(z3.And(*[t != v for v in vals])):
                return FInt(t)                   # more than two feasible values: stay symbolic
        for v in vals[:-1]:
            if ctx.branch(t == z3.BitVecVal(v, W)):
                return FInt(z3.BitVecVal(v, W))
        ctx.add(t == z3.BitVecVal(vals[-1], W))
        return FInt(z3.BitVecVal(vals[-1], W))

    def __repr__(self):
        return "<ffloat>"


UNIT_US = {'s': 10 ** 6, 'ms': 10 ** 3, 'us': 1}


def td_us(td):
    """np.timedelta64 -> exact (count, unit)"""
    unit = np.datetime_data(td.dtype)[0]
    return int(td.astype('int64')), unit


class SymTD:
    """timedelta64 stand-in: integer count (FInt) of `unit`."""
    __array_ufunc__ = None

    def __init__(self, n, unit):
        self.n, self.unit = n, unit

    def _conv(self, o):
        """bring self and o (SymTD | np.timedelta64) to the finer common unit; returns (a, b, unit)"""
        order = ['s', 'ms', 'us', 'ns', 'ps']
        if isinstance(o, np.timedelta64):
            k, u = td_us(o)
            o = SymTD(k, u)
        u = max(self.unit, o.unit, key=order.index)
        fa = 10 ** (3 * (order.index(u) - order.index(self.unit)))
        fb = 10 ** (3 * (order.index(u) - order.index(o.unit)))
        return self.n * fa, o.n * fb, u

    def __truediv__(self, o):
        a, b, u = self._conv(o)
        a = a if isinstance(a, FInt) else FInt(bv(a))
        return a / b            # float64 true division of the two integer counts

    def __sub__(self, o):
        a, b, u = self._conv(o)
        return SymTD(a - b, u)

    def __rsub__(self, o):
        a, b, u = self._conv(o)
        return SymTD(b - a, u)

    def __add__(self, o):
        if isinstance(o, np.datetime64):
            return SymDT64.from_np(o) + self
        if isinstance(o, SymDT64):
            return o + self
        a, b, u = self._conv(o)
        return SymTD(a + b, u)
    __radd__ = __add__

    def __lt__(self, o):
        a, b, u = self._conv(o)
        a = a if isinstance(a, FInt) else FInt(bv(a))
        return a < b

    def __repr__(self):
        return "<symtd %s>" % self.unit


class SymDT64:
    """datetime64 stand-in: integer count of `unit` since 1970-01-01."""
    __array_ufunc__ = None

    def __init__(self, n, unit='us'):
        self.n, self.unit = n, unit

    @staticmethod
    def from_np(d):
        unit = np.datetime_data(d.dtype)[0]
        return SymDT64(int(d.astype('int64')), unit)

    def __sub__(self, o):
        if isinstance(o, np.datetime64):
            o = SymDT64.from_np(o)
        if isinstance(o, SymDT64):
            a, b, u = SymTD(self.n, self.unit)._conv(SymTD(o.n, o.unit))
            return SymTD(a - b, u)
        a, b, u = SymTD(self.n, self.unit)._conv(o)
        return SymDT64(a - b, u)

    def __add__(self, o):
        a, b, u = SymTD(self.n, self.unit)._conv(o)
        return SymDT64(a + b, u)
    __radd__ = __add__

    def __repr__(self):
        return "<symdt64 %s>" % self.unit


class PackedTS:
    """result of struct.pack('<Qq', fractions, seconds) with symbolic operands"""

    def __init__(self, fmt, values):
        self.fmt, self.values = fmt, values

    def __len__(self):
        return 16


# ----------------------------------------------------------------------------- solving
def solve_bvfp(constraints, timeout_s=120, want_model=None, use_cvc5=True):
    """Decide a QF_BVFP conjunction with z3 and cvc5 (second opinion).  Returns
    (verdict, model_dict, info).  verdict in sat/unsat/unknown; disagreement -> unknown."""
    s = z3.Solver()
    s.add(*constraints)
    smt = "(set-logic QF_BVFP)\n" + s.to_smt2()
    if want_model:
        smt = smt.replace("(check-sat)", "(check-sat)\n(get-value (%s))" % ' '.join(want_model))
    info = {}
    cvc_proc = None
    fn = None
    if use_cvc5:
        fd, fn = tempfile.mkstemp(suffix='.smt2', dir=os.environ.get('VF_SCRATCH', None))
        with os.fdopen(fd, 'w') as f:
            f.write(smt)
        try:
            cvc_proc = subprocess.Popen(['cvc5', '--produce-models', '--tlimit=%d' % (timeout_s * 1000), fn],
                                        stdout=subprocess.PIPE, stderr=subprocess.PIPE, text=True)
        except OSError:
            cvc_proc = None
    t = time.time()
    s.set('timeout', timeout_s * 1000)
    r = s.check()
    info['z3_s'] = round(time.time() - t, 2)
    zv = str(r)
    model = {}
    if r == z3.sat and want_model:
        m = s.model()
        for d in m.decls():
            if d.name() in want_model:
                model[d.name()] = m[d].as_long()
    cv = 'unknown'
    if cvc_proc is not None:
        try:
            out, err = cvc_proc.communicate(timeout=timeout_s + 10)
            info['cvc5_s'] = round(time.time() - t, 2)
            first = out.strip().splitlines()[0] if out.strip() else ''
            if '(error' in out or '(error' in err:
                cv = 'unknown'
            elif first in ('sat', 'unsat'):
                cv = first
                if first == 'sat' and want_model and not model:
                    import re
                    for name, val in re.findall(r'\((\w+) #b([01]+)\)', out):
                        model[name] = int(val, 2)
                    for name, val in re.findall(r'\((\w+) #x([0-9a-fA-F]+)\)', out):
                        model[name] = int(val, 16)
        except subprocess.TimeoutExpired:
            cvc_proc.kill()
        finally:
            if fn and os.path.exists(fn):
                os.unlink(fn)
    info['z3'], info['cvc5'] = zv, cv
    verdicts = {v for v in (zv, cv) if v in ('sat', 'unsat')}
    if len(verdicts) == 2:
        return 'unknown', {}, dict(info, disagreement=True)
    if not verdicts:
        return 'unknown', {}, info
    return verdicts.pop(), model, info


# ----------------------------------------------------------------------------- abstraction
class AFloat:
    """Real value with relative rounding error per operation (sound over-approximation of float64
    arithmetic on normal values): fl(x op y) = (x op y)(1+e), |e| <= 2^-53."""
    __array_ufunc__ = None
    U = Fraction(1, 2 ** 53)

    def __init__(self, e, ctx):
        self.e, self.ctx = e, ctx

    @staticmethod
    def _err(ctx):
        ctx.fresh += 1
        e = z3.Real('eps%d' % ctx.fresh)
        u = z3.RealVal(str(AFloat.U))
        ctx.add(z3.And(e >= -u, e <= u))
        return e

    @staticmethod
    def from_int(x, ctx):
        """int -> float64 (rounding)"""
        xe = z3.ToReal(x.e) if hasattr(x, 'e') and z3.is_int(x.e) else x
        return AFloat(xe * (1 + AFloat._err(ctx)), ctx)

    def _o(self, o):
        if isinstance(o, AFloat):
            return o.e
        if isinstance(o, (float, np.floating)):
            return z3.RealVal(str(Fraction(float(o))))
        if isinstance(o, (int, np.integer)):
            return z3.RealVal(int(o))
        return None

    def __truediv__(self, o):
        r = self._o(o)
        if r is None:
            return NotImplemented
        return AFloat(self.e / r * (1 + AFloat._err(self.ctx)), self.ctx)

    def __mul__(self, o):
        if isinstance(o, np.timedelta64):
            k, unit = td_us(o)
            x = self.e if k == 1 else self.e * k * (1 + AFloat._err(self.ctx))
            self.ctx.fresh += 1
            t = z3.Int('trunc%d' % self.ctx.fresh)
            # truncation toward zero of a non-negative real
            self.ctx.add(z3.And(z3.ToReal(t) <= x, x < z3.ToReal(t) + 1))
            return ATD(t, unit)
        r = self._o(o)
        if r is None:
            return NotImplemented
        return AFloat(self.e * r * (1 + AFloat._err(self.ctx)), self.ctx)
    __rmul__ = __mul__


class ATD:
    """timedelta stand-in in the abstract world: integer count of `unit` (z3 Int)."""
    __array_ufunc__ = None

    def __init__(self, n, unit):
        self.n, self.unit = n, unit

    def __add__(self, o):
        return ADT(self, o)
    __radd__ = __add__


class ADT:
    """sum of datetime parts; only the pieces are inspected by the harness"""
    __array_ufunc__ = None

    def __init__(self, *parts):
        self.parts = []
        for p in parts:
            self.parts.extend(p.parts if isinstance(p, ADT) else [p])

    def __add__(self, o):
        return ADT(self, o)
    __radd__ = __add__

"""Shared pieces of the S1 harnesses (symbolic request on a concrete file): JSON-able file
shapes, canonical comparison of read results with the oracle, slice-semantics formulas."""
import io
import struct
import z3
from . import tdmsmodel as tm
from .sx import ex, SymInt

EPOCH_1904_TO_1970_US = 2082844800 * 10 ** 6


# ----------------------------------------------------------------------------- shapes
def seg(objs, nchunks=1, **kw):
    """objs: list of [path, kind, tcode, nv] (+ optional props list)"""
    d = dict(objs=[list(o) for o in objs], nchunks=nchunks)
    d.update(kw)
    return d


def to_model(shape):
    segs = []
    for s in shape:
        objs = []
        for o in s['objs']:
            path, kind, tcode, nv = o[:4]
            props = [tuple(p) for p in (o[4] if len(o) > 4 and o[4] else [])]
            props = [(n, t, tuple(v) if isinstance(v, list) else v) for (n, t, v) in props]
            strings = o[5] if len(o) > 5 else None
            values = [[bytes.fromhex(v) for v in chunk] for chunk in o[6]] if len(o) > 6 and o[6] else None
            objs.append(tm.Obj(path, kind, tcode, nv, props, strings, values))
        segs.append(tm.Seg(objs, s.get('nchunks', 1), meta=s.get('meta', True), newobj=s.get('newobj', True),
                           inter=s.get('inter', False), big=s.get('big', False), trunc=s.get('trunc', 0),
                           unknown_len=s.get('unknown_len', False), version=s.get('version', 4713),
                           raw_flag=s.get('raw_flag', True), pad=s.get('pad', 0)))
    return segs


def build(shape, seed=0, allow_forbidden=False):
    return tm.encode(to_model(shape), tm.Planter(seed), allow_forbidden=allow_forbidden)


# ----------------------------------------------------------------------------- canonical values
def exp_canon(ch, raw_timestamps=False):
    """Oracle's canonical value list of a channel."""
    t = ch.tcode
    if t == 0x20:
        return list(ch.raw)
    if t == 0x44:
        out = []
        for r in ch.raw:
            frac, sec = struct.unpack('<Qq', r)
            out.append(('ts', sec, frac) if raw_timestamps else tm.ts_to_us(sec, frac) - EPOCH_1904_TO_1970_US)
        return out
    return [bytes(r) for r in ch.raw]


def got_canon(arr, tcode, raw_timestamps=False):
    """Canonical value list of an array returned by nptdms (bit-exact for numeric types)."""
    import numpy as np
    if tcode == 0x20:
        return [x for x in arr]
    if tcode == 0x44:
        if raw_timestamps:
            if getattr(getattr(arr, 'dtype', None), 'names', None) is None and len(arr) == 0:
                return []           # an empty result is not always a TimestampArray (recorded under C14)
            return [('ts', int(s), int(f)) for s, f in zip(arr['seconds'], arr['second_fractions'])]
        return [int(x) for x in np.asarray(arr).astype('datetime64[us]').astype('int64')]
    a = np.ascontiguousarray(arr)
    if a.dtype.byteorder == '>':
        a = a.astype(a.dtype.newbyteorder('<'))
    size = a.dtype.itemsize
    b = a.tobytes()
    return [b[i * size:(i + 1) * size] for i in range(len(a))]


def dtype_name(arr):
    import numpy as np
    return np.asarray(arr).dtype.newbyteorder('=').name if hasattr(arr, 'dtype') else type(arr).__name__


def show(v):
    if isinstance(v, bytes):
        return v.hex()
    return v


# ----------------------------------------------------------------------------- slice semantics as formulas
def zmax(a, b):
    return z3.If(a >= b, a, b)


def zmin(a, b):
    return z3.If(a <= b, a, b)


def window_formula(full, got, offset, length, n):
    """got == full[offset:offset+length]   (offset>=0, length>=0 or None); z3 Bool."""
    o = ex(offset)
    end = z3.IntVal(n) if length is None else o + ex(length)
    start = zmin(o, z3.IntVal(n))
    end = zmax(zmin(end, z3.IntVal(n)), start)
    alts = []
    m = len(got)
    if m == 0:
        return start == end
    for s_ in range(0, n - m + 1):
        if full[s_:s_ + m] == got:
            alts.append(z3.And(start == s_, end == s_ + m))
    return z3.Or(*alts) if alts else z3.BoolVal(False)


def slice_bounds(start, stop, step_pos, n):
    """PySlice_AdjustIndices for a given sign of step; start/stop are z3 Int or None. Returns (lo, hi)."""
    N = z3.IntVal(n)
    if step_pos:
        lo = z3.IntVal(0) if start is None else z3.If(start < 0, zmax(start + N, z3.IntVal(0)), zmin(start, N))
        hi = N if stop is None else z3.If(stop < 0, zmax(stop + N, z3.IntVal(0)), zmin(stop, N))
    else:
        lo = N - 1 if start is None else z3.If(start < 0, zmax(start + N, z3.IntVal(-1)), zmin(start, N - 1))
        hi = z3.IntVal(-1) if stop is None else z3.If(stop < 0, zmax(stop + N, z3.IntVal(-1)), zmin(stop, N - 1))
    return lo, hi


def slice_formula(full, got, start, stop, step, n, step_bound):
    """got == full[start:stop:step] as a z3 Bool over the symbolic request.
    start/stop/step: None | int | SymInt.  step None means 1.  step != 0 assumed."""
    zs = None if start is None else ex(start)
    ze = None if stop is None else ex(stop)
    m = len(got)
    if step is None:
        cases = [(z3.BoolVal(True), 1)]
    elif isinstance(step, SymInt):
        cases = [(step.e == s, s) for s in range(-step_bound, step_bound + 1) if s != 0]
    else:
        cases = [(z3.BoolVal(True), int(step))]
    disj = []
    for cond, s in cases:
        lo, hi = slice_bounds(zs, ze, s > 0, n)
        if m == 0:
            body = (hi <= lo) if s > 0 else (lo <= hi)
        else:
            alts = []
            for c in range(n):
                idx = [c + k * s for k in range(m)]
                if all(0 <= i < n for i in idx) and [full[i] for i in idx] == got:
                    if s > 0:
                        cnt = z3.And(c + (m - 1) * s < hi, hi <= c + m * s)
                    else:
                        cnt = z3.And(c + (m - 1) * s > hi, hi >= c + m * s)
                    alts.append(z3.And(lo == c, cnt))
            body = z3.Or(*alts) if alts else z3.BoolVal(False)
        disj.append(z3.And(cond, body))
    return z3.Or(*disj)


def py_slice(full, start, stop, step):
    return full[slice(start, stop, step)]


# ----------------------------------------------------------------------------- whole-file comparison with the oracle
def prop_canon_expected(tcode, value, raw_ts):
    if tcode == 0x44:
        sec, frac = value
        return ('ts', sec, frac) if raw_ts else ('dt64', tm.ts_to_us(sec, frac) - EPOCH_1904_TO_1970_US)
    if tcode == 0x20:
        return ('str', value)
    if tcode == 0x21:
        return ('bool', bool(value))
    ch = tm.TYPES[tcode][2]
    if ch in 'fd':
        return ('float', struct.pack('<d', struct.unpack('<' + ch, struct.pack('<' + ch, value))[0]).hex())
    return ('int', int(value))


def prop_canon_got(v):
    import numpy as np
    if hasattr(v, 'seconds') and hasattr(v, 'second_fractions'):
        return ('ts', int(v.seconds), int(v.second_fractions))
    if isinstance(v, np.datetime64):
        return ('dt64', int(v.astype('datetime64[us]').astype('int64')))
    if isinstance(v, (bool, np.bool_)):
        return ('bool', bool(v))
    if isinstance(v, str):
        return ('str', v)
    if isinstance(v, (float, np.floating)):
        return ('float', struct.pack('<d', float(v)).hex())
    if isinstance(v, (int, np.integer)):
        return ('int', int(v))
    return ('other', repr(v))


def expected_dtype(tcode, raw_ts=False):
    if tcode is None:
        return 'void64'
    if tcode == 0x44:
        return 'raw-timestamp' if raw_ts else 'datetime64[us]'
    return tm.TYPES[tcode][3]


def compare_file(tf, enc, raw_ts=False, expected_values=None, check_data=True):
    """Compares everything TdmsFile exposes with the oracle.  Returns a list of mismatch dicts (empty = equal).
    expected_values: optional {path: canonical list} override (truncated files)."""
    import numpy as np
    out = []
    groups, chans = tm.expected_hierarchy(enc)
    got_groups = [g.name for g in tf.groups()]
    if got_groups != groups:
        out.append(dict(what='groups', got=got_groups, expected=groups))
        return out
    objs = [('/', tf.properties)]
    for g in tf.groups():
        objs.append((tm.make_path(g.name), g.properties))
        got_ch = [c.name for c in g.channels()]
        if got_ch != chans.get(g.name, []):
            out.append(dict(what='channels', group=g.name, got=got_ch, expected=chans.get(g.name, [])))
            return out
        for c in g.channels():
            objs.append((tm.make_path(g.name, c.name), c.properties))
            if c.path != tm.make_path(g.name, c.name) or c.group_name != g.name:
                out.append(dict(what='channel-path', got=c.path, expected=tm.make_path(g.name, c.name)))
    for path, props in objs:
        exp = enc.props.get(path, {})
        got = {k: prop_canon_got(v) for k, v in props.items()}
        want = {k: prop_canon_expected(t, v, raw_ts) for k, (t, v) in exp.items()}
        if got != want or list(props.keys()) != list(exp.keys()):
            out.append(dict(what='properties', object=path, got={k: list(v) for k, v in got.items()},
                            expected={k: list(v) for k, v in want.items()}))
    if not check_data:
        return out
    for g in tf.groups():
        for c in g.channels():
            path = tm.make_path(g.name, c.name)
            ech = enc.channels[path]
            full = expected_values[path] if expected_values and path in expected_values else \
                (exp_canon(ech, raw_ts) if ech.tcode is not None else [])
            if len(c) != len(full):
                out.append(dict(what='length', channel=path, got=len(c), expected=len(full)))
                continue
            arr = c[:]
            dt = np.asarray(arr).dtype
            want_dt = expected_dtype(ech.tcode, raw_ts)
            got_dt = 'raw-timestamp' if (raw_ts and ech.tcode == 0x44) else (dt.newbyteorder('=').name if dt.kind != 'V' else 'void64')
            if ech.tcode == 0x44 and not raw_ts:
                got_dt = str(dt.newbyteorder('=')).replace('<', '').replace('>', '').replace('M8', 'datetime64')
            if got_dt != want_dt:
                out.append(dict(what='dtype', channel=path, got=got_dt, expected=want_dt))
                continue
            vals = got_canon(arr, ech.tcode, raw_ts) if ech.tcode is not None else list(arr)
            if vals != full:
                out.append(dict(what='values', channel=path, got=[show(x) for x in vals][:8], expected=[show(x) for x in full][:8]))
    return out

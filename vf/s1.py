"""Shared pieces of the S1 harnesses (symbolic request on a concrete file): JSON-able file
shapes, canonical comparison of read results with the oracle, slice-semantics formulas."""
import io
import struct
import z3
from . import tdmsmodel as tm
from .sx import ex, SymInt

EPOCH_1904_TO_1970_US = 2082844800 * 10 ** 6


# ----------------------------------------------------------------------------- shapes
def seg(objs, nchunks=1, **kw):
    """objs: list of [path, kind, tcode, nv] (+ optional props list)"""
    d = dict(objs=[list(o) for o in objs], nchunks=nchunks)
    d.update(kw)
    return d


def to_model(shape):
    segs = []
    for s in shape:
        objs = []
        for o in s['objs']:
            path, kind, tcode, nv = o[:4]
            props = [tuple(p) for p in (o[4] if len(o) > 4 and o[4] else [])]
            props = [(n, t, tuple(v) if isinstance(v, list) else v) for (n, t, v) in props]
            strings = o[5] if len(o) > 5 else None
            objs.append(tm.Obj(path, kind, tcode, nv, props, strings))
        segs.append(tm.Seg(objs, s.get('nchunks', 1), meta=s.get('meta', True), newobj=s.get('newobj', True),
                           inter=s.get('inter', False), big=s.get('big', False), trunc=s.get('trunc', 0),
                           unknown_len=s.get('unknown_len', False), version=s.get('version', 4713),
                           raw_flag=s.get('raw_flag', True)))
    return segs


def build(shape, seed=0):
    return tm.encode(to_model(shape), tm.Planter(seed))


# ----------------------------------------------------------------------------- canonical values
def exp_canon(ch, raw_timestamps=False):
    """Oracle's canonical value list of a channel."""
    t = ch.tcode
    if t == 0x20:
        return list(ch.raw)
    if t == 0x44:
        out = []
        for r in ch.raw:
            frac, sec = struct.unpack('<Qq', r)
            out.append(('ts', sec, frac) if raw_timestamps else tm.ts_to_us(sec, frac) - EPOCH_1904_TO_1970_US)
        return out
    return [bytes(r) for r in ch.raw]


def got_canon(arr, tcode, raw_timestamps=False):
    """Canonical value list of an array returned by nptdms (bit-exact for numeric types)."""
    import numpy as np
    if tcode == 0x20:
        return [x for x in arr]
    if tcode == 0x44:
        if raw_timestamps:
            return [('ts', int(s), int(f)) for s, f in zip(arr['seconds'], arr['second_fractions'])]
        return [int(x) for x in np.asarray(arr).astype('datetime64[us]').astype('int64')]
    a = np.ascontiguousarray(arr)
    if a.dtype.byteorder == '>':
        a = a.astype(a.dtype.newbyteorder('<'))
    size = a.dtype.itemsize
    b = a.tobytes()
    return [b[i * size:(i + 1) * size] for i in range(len(a))]


def dtype_name(arr):
    import numpy as np
    return np.asarray(arr).dtype.newbyteorder('=').name if hasattr(arr, 'dtype') else type(arr).__name__


def show(v):
    if isinstance(v, bytes):
        return v.hex()
    return v


# ----------------------------------------------------------------------------- slice semantics as formulas
def zmax(a, b):
    return z3.If(a >= b, a, b)


def zmin(a, b):
    return z3.If(a <= b, a, b)


def window_formula(full, got, offset, length, n):
    """got == full[offset:offset+length]   (offset>=0, length>=0 or None); z3 Bool."""
    o = ex(offset)
    end = z3.IntVal(n) if length is None else o + ex(length)
    start = zmin(o, z3.IntVal(n))
    end = zmax(zmin(end, z3.IntVal(n)), start)
    alts = []
    m = len(got)
    if m == 0:
        return start == end
    for s_ in range(0, n - m + 1):
        if full[s_:s_ + m] == got:
            alts.append(z3.And(start == s_, end == s_ + m))
    return z3.Or(*alts) if alts else z3.BoolVal(False)


def slice_bounds(start, stop, step_pos, n):
    """PySlice_AdjustIndices for a given sign of step; start/stop are z3 Int or None. Returns (lo, hi)."""
    N = z3.IntVal(n)
    if step_pos:
        lo = z3.IntVal(0) if start is None else z3.If(start < 0, zmax(start + N, z3.IntVal(0)), zmin(start, N))
        hi = N if stop is None else z3.If(stop < 0, zmax(stop + N, z3.IntVal(0)), zmin(stop, N))
    else:
        lo = N - 1 if start is None else z3.If(start < 0, zmax(start + N, z3.IntVal(-1)), zmin(start, N - 1))
        hi = z3.IntVal(-1) if stop is None else z3.If(stop < 0, zmax(stop + N, z3.IntVal(-1)), zmin(stop, N - 1))
    return lo, hi


def slice_formula(full, got, start, stop, step, n, step_bound):
    """got == full[start:stop:step] as a z3 Bool over the symbolic request.
    start/stop/step: None | int | SymInt.  step None means 1.  step != 0 assumed."""
    zs = None if start is None else ex(start)
    ze = None if stop is None else ex(stop)
    m = len(got)
    if step is None:
        cases = [(z3.BoolVal(True), 1)]
    elif isinstance(step, SymInt):
        cases = [(step.e == s, s) for s in range(-step_bound, step_bound + 1) if s != 0]
    else:
        cases = [(z3.BoolVal(True), int(step))]
    disj = []
    for cond, s in cases:
        lo, hi = slice_bounds(zs, ze, s > 0, n)
        if m == 0:
            body = (hi <= lo) if s > 0 else (lo <= hi)
        else:
            alts = []
            for c in range(n):
                idx = [c + k * s for k in range(m)]
                if all(0 <= i < n for i in idx) and [full[i] for i in idx] == got:
                    if s > 0:
                        cnt = z3.And(c + (m - 1) * s < hi, hi <= c + m * s)
                    else:
                        cnt = z3.And(c + (m - 1) * s > hi, hi >= c + m * s)
                    alts.append(z3.And(lo == c, cnt))
            body = z3.Or(*alts) if alts else z3.BoolVal(False)
        disj.append(z3.And(cond, body))
    return z3.Or(*disj)


def py_slice(full, start, stop, step):
    return full[slice(start, stop, step)]

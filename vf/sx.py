"""sx -- a small path-exhaustive symbolic executor on z3.

Proxy values (SymInt / SymBool) stand for z3 terms.  A *path* is one execution of a harness
function; every time a symbolic boolean is needed as a Python bool the engine asks z3 which
outcomes are satisfiable under the path condition and forks if both are (deterministic DFS by
re-execution: a path is identified by its prefix of logged decisions).  When a symbolic integer
reaches a C boundary (``__index__``/``__int__``/``__hash__``) the engine forks over every
feasible value (the picked values are logged in the decision prefix so replay is deterministic).

At the end of a path the harness calls ``ctx.prove(expr, ...)``: the negation is checked under
the path condition; ``unsat`` discharges the obligation for *every* value on the path, ``sat``
yields a model (candidate counterexample), ``unknown`` makes the run inconclusive.
"""
import time
import z3

MAX_CONCRETISATIONS = 4096      # cap on the values enumerated for one concretisation chain


class PathAbort(BaseException):
    """Abandon the current path (assumption failed / infeasible)."""


class Inconclusive(Exception):
    """Solver answered unknown, or an engine bound was exceeded: no verdict for this path."""


class Violation(Exception):
    """Candidate counterexample: args[0] is a JSON-able dict (must still pass the replay gate)."""


class Ctx:
    cur = None

    def __init__(self, prefix, timeout_ms=60000):
        self.prefix = prefix
        self.decisions = []           # list of ((kind, value), other_side_feasible)
        self.solver = z3.Solver()
        self.solver.set("timeout", timeout_ms)
        self.timeout_ms = timeout_ms
        self.pc = []
        self.nqueries = 0
        self.solver_s = 0.0
        self.model = None
        self.fresh = 0
        self.inputs = {}              # name -> z3 term (for model extraction)
        self.notes = set()            # coverage buckets reached on this path
        self.obligations = 0
        self.discharged = 0
        self.nconc = 0
        self.info = {}

    # -- constraints ------------------------------------------------------------------
    def add(self, c):
        if isinstance(c, SymBool):
            c = c.e
        if isinstance(c, bool):
            if not c:
                raise PathAbort()
            return
        self.pc.append(c)
        self.solver.add(c)
        if self.model is not None:
            try:
                if not z3.is_true(self.model.eval(c, model_completion=True)):
                    self.model = None
            except z3.Z3Exception:
                self.model = None

    def check(self, extra=None):
        self.nqueries += 1
        t = time.time()
        r = self.solver.check() if extra is None else self.solver.check(extra)
        self.solver_s += time.time() - t
        if r == z3.unknown:
            raise Inconclusive("solver unknown: %s" % self.solver.reason_unknown())
        return r == z3.sat

    def get_model(self):
        if self.model is None:
            if not self.check():
                raise PathAbort()
            self.model = self.solver.model()
        return self.model

    def _model_says(self, cond):
        """Truth value of cond under the cached model (None if there is no cached model)."""
        if self.model is None:
            return None
        try:
            v = self.model.eval(cond, model_completion=True)
        except z3.Z3Exception:
            return None
        if z3.is_true(v):
            return True
        if z3.is_false(v):
            return False
        return None

    # -- decisions --------------------------------------------------------------------
    def branch(self, cond):
        cond = z3.simplify(cond)
        if z3.is_true(cond):
            return True
        if z3.is_false(cond):
            return False
        i = len(self.decisions)
        if i < len(self.prefix):
            kind, choice = self.prefix[i]
            assert kind == 'b', (self.prefix[i], cond)
            self.decisions.append((('b', choice), False))
            c = cond if choice else z3.Not(cond)
            self.pc.append(c)
            self.solver.add(c)
            self.model = None
            return choice
        m = self.get_model()
        try:
            side = z3.is_true(m.eval(cond, model_completion=True))
        except z3.Z3Exception:
            side = self.check(cond)
            self.model = None
            m = None
        other = z3.Not(cond) if side else cond
        other_feasible = self.check(other)
        c = cond if side else z3.Not(cond)
        if m is None and not side and not other_feasible:
            raise PathAbort()
        if m is None and not side:
            # model unavailable and cond infeasible: take the other side
            pass
        self.decisions.append((('b', side), other_feasible))
        self.pc.append(c)
        self.solver.add(c)          # the cached model (if any) still satisfies the path condition
        return side

    def pick_value(self, expr):
        i = len(self.decisions)
        if i < len(self.prefix):
            kind, v = self.prefix[i]
            assert kind == 'v', self.prefix[i]
        else:
            m = self.get_model()
            v = m.eval(expr, model_completion=True).as_long()
        self.decisions.append((('v', v), False))
        return v

    # -- inputs / assertions ----------------------------------------------------------
    def int(self, name, lo=None, hi=None):
        e = z3.Int(name)
        self.inputs[name] = e
        if lo is not None:
            self.add(e >= lo)
        if hi is not None:
            self.add(e <= hi)
        return SymInt(e)

    def choice(self, name, n):
        """Symbolic choice in range(n), concretised at once (solver-driven case split)."""
        if n == 1:
            return 0
        return int(self.int(name, 0, n - 1))

    def note(self, bucket):
        self.notes.add(bucket)

    def model_inputs(self, model=None):
        m = model or self.get_model()
        out = {}
        for k, e in self.inputs.items():
            v = m.eval(e, model_completion=True)
            try:
                out[k] = v.as_long()
            except (AttributeError, z3.Z3Exception):
                out[k] = str(v)
        return out

    def prove(self, prop, describe=None, what=''):
        """Obligation: prop holds for every assignment satisfying the path condition."""
        self.obligations += 1
        if isinstance(prop, SymBool):
            prop = prop.e
        if isinstance(prop, bool):
            if prop:
                self.discharged += 1
                return
            m = self.get_model()
        else:
            if not self.check(z3.Not(prop)):
                self.discharged += 1
                return
            m = self.solver.model()
        d = dict(what=what, inputs=self.model_inputs(m))
        if describe is not None:
            d.update(describe(m) if callable(describe) else describe)
        raise Violation(d)

    def fail(self, what, **kw):
        """The current path itself is a violation for every assignment on it."""
        self.obligations += 1
        d = dict(what=what, inputs=self.model_inputs())
        d.update(kw)
        raise Violation(d)


class ConcreteCtx:
    """Drop-in for Ctx with every input pinned to a concrete value: runs a harness function on the PLAIN package (no import hook,
    no proxies) so that a candidate found symbolically is confirmed - or not - by an ordinary execution.  add() aborts the
    path if an assumption is false for these inputs; prove()/fail() raise Violation as Ctx does."""

    def __init__(self, inputs):
        self.given = dict(inputs)
        self.inputs, self.info, self.pc = {}, {}, []
        self.obligations = self.discharged = self.nqueries = 0
        self.notes = set()
        self.concrete = True

    def int(self, name, lo=None, hi=None):
        v = int(self.given.get(name, lo if lo is not None else 0))
        if (lo is not None and v < lo) or (hi is not None and v > hi):
            raise PathAbort()
        self.inputs[name] = v
        return v

    def choice(self, name, n):
        if n == 1:
            return 0
        return self.int(name, 0, n - 1)

    def _truth(self, c):
        if isinstance(c, SymBool):
            c = c.e
        if isinstance(c, bool):
            return c
        return z3.is_true(z3.simplify(c))

    def add(self, c):
        if not self._truth(c):
            raise PathAbort()

    def check(self, extra=None):
        return True if extra is None else self._truth(extra)

    def note(self, bucket):
        self.notes.add(bucket)

    def get_model(self):
        return None

    def model_inputs(self, model=None):
        return dict(self.inputs)

    def prove(self, prop, describe=None, what=''):
        self.obligations += 1
        if self._truth(prop):
            self.discharged += 1
            return
        d = dict(what=what, inputs=dict(self.inputs))
        if describe is not None and not callable(describe):
            d.update(describe)
        raise Violation(d)

    def fail(self, what, **kw):
        self.obligations += 1
        d = dict(what=what, inputs=dict(self.inputs))
        d.update(kw)
        raise Violation(d)


def run_concrete(fn, inputs):
    """Runs harness fn on pinned inputs; returns None (holds / assumptions not met) or the violation dict."""
    ctx = ConcreteCtx(inputs)
    try:
        fn(ctx)
    except PathAbort:
        return None
    except Violation as v:
        return v.args[0]
    return None


def _lift(x):
    if isinstance(x, SymInt):
        return x.e
    if isinstance(x, SymBool):
        return z3.If(x.e, z3.IntVal(1), z3.IntVal(0))
    if isinstance(x, bool):
        return z3.IntVal(int(x))
    if isinstance(x, int):
        return z3.IntVal(x)
    try:
        import numpy as np
        if isinstance(x, np.integer):
            return z3.IntVal(int(x))
    except ImportError:
        pass
    return None


def ex(x):
    """z3 Int term of an int | SymInt."""
    r = _lift(x)
    if r is None:
        raise TypeError("not an integer: %r" % (x,))
    return r


def bex(x):
    if isinstance(x, SymBool):
        return x.e
    return z3.BoolVal(bool(x))


def mk_bool(e):
    e = z3.simplify(e)
    if z3.is_true(e):
        return True
    if z3.is_false(e):
        return False
    return SymBool(e)


class SymBool:
    __array_ufunc__ = None
    __slots__ = ('e',)

    def __init__(self, e):
        self.e = e

    def __bool__(self):
        return Ctx.cur.branch(self.e)

    def __and__(self, o):
        return mk_bool(z3.And(self.e, bex(o)))
    __rand__ = __and__

    def __or__(self, o):
        return mk_bool(z3.Or(self.e, bex(o)))
    __ror__ = __or__

    def __invert__(self):
        return mk_bool(z3.Not(self.e))

    def __eq__(self, o):
        if isinstance(o, (bool, SymBool)):
            return mk_bool(self.e == bex(o))
        return NotImplemented

    def __ne__(self, o):
        if isinstance(o, (bool, SymBool)):
            return mk_bool(self.e != bex(o))
        return NotImplemented

    __hash__ = None

    def __repr__(self):
        return "SymBool(%s)" % self.e


def _cmp(op):
    def f(self, other):
        o = _lift(other)
        if o is None:
            return NotImplemented
        return mk_bool(op(self.e, o))
    return f


class SymInt:
    __array_ufunc__ = None
    __slots__ = ('e',)
    QMAX = 8           # bound on the quotient when dividing by a symbolic divisor

    def __init__(self, e):
        self.e = e

    @staticmethod
    def mk(e):
        e = z3.simplify(e)
        if z3.is_int_value(e):
            return e.as_long()
        return SymInt(e)

    def concretize(self):
        ctx = Ctx.cur
        n = 0
        while True:
            v = ctx.pick_value(self.e)
            if ctx.branch(self.e == v):
                ctx.nconc += 1
                return v
            n += 1
            if n > MAX_CONCRETISATIONS:
                raise Inconclusive("concretisation of %s enumerates more than %d values" % (self.e, n))

    __index__ = concretize
    __int__ = concretize

    def __hash__(self):
        return hash(self.concretize())

    def __bool__(self):
        return Ctx.cur.branch(self.e != 0)

    def __float__(self):
        return float(self.concretize())

    def __add__(self, o):
        o = _lift(o)
        return NotImplemented if o is None else SymInt.mk(self.e + o)
    __radd__ = __add__

    def __sub__(self, o):
        o = _lift(o)
        return NotImplemented if o is None else SymInt.mk(self.e - o)

    def __rsub__(self, o):
        o = _lift(o)
        return NotImplemented if o is None else SymInt.mk(o - self.e)

    def __neg__(self):
        return SymInt.mk(-self.e)

    def __pos__(self):
        return self

    def __abs__(self):
        return SymInt.mk(z3.If(self.e >= 0, self.e, -self.e))

    def __mul__(self, o):
        if isinstance(o, SymInt):
            o = o.concretize()
        o = _lift(o)
        return NotImplemented if o is None else SymInt.mk(self.e * o)
    __rmul__ = __mul__

    def _divmod(self, o):
        if isinstance(o, SymInt):
            # case-split on the QUOTIENT, keep the divisor symbolic (stays linear)
            if o == 0:
                raise ZeroDivisionError("integer division or modulo by zero")
            if (o > 0) and (self >= 0):
                for k in range(SymInt.QMAX + 1):
                    if self < (k + 1) * o:
                        return k, SymInt.mk(self.e - k * o.e)
                raise Inconclusive("quotient bound %d exceeded" % SymInt.QMAX)
            o = o.concretize()
        if isinstance(o, bool):
            o = int(o)
        if not isinstance(o, int):
            try:
                o = int(o)
            except Exception:
                return None
        if o == 0:
            raise ZeroDivisionError("integer division or modulo by zero")
        if o > 0:
            return SymInt.mk(self.e / o), SymInt.mk(self.e % o)
        # python floor semantics for a negative constant divisor: floor(a/o) == floor(-a / -o)
        q = SymInt.mk((-self.e) / (-o))
        r = SymInt.mk(self.e - ex(q) * o)
        return q, r

    def __floordiv__(self, o):
        r = self._divmod(o)
        return NotImplemented if r is None else r[0]

    def __mod__(self, o):
        r = self._divmod(o)
        return NotImplemented if r is None else r[1]

    def __divmod__(self, o):
        r = self._divmod(o)
        return NotImplemented if r is None else r

    def __rfloordiv__(self, o):
        return o // self.concretize()

    def __rmod__(self, o):
        return o % self.concretize()

    def __truediv__(self, o):
        return self.concretize() / o

    def __rtruediv__(self, o):
        return o / self.concretize()

    def __pow__(self, n):
        if isinstance(n, int) and 0 <= n <= 4:
            r = 1
            for _ in range(n):
                r = r * self
            return r
        return self.concretize() ** n

    def __rpow__(self, b):
        return b ** self.concretize()

    def _bits(self, mask):
        """self & mask for a non-negative constant mask (bitwise, via div/mod)."""
        terms = []
        k = 0
        while (mask >> k) != 0:
            if (mask >> k) & 1:
                terms.append((2 ** k) * ((self.e / (2 ** k)) % 2))
            k += 1
        return SymInt.mk(z3.Sum(terms)) if terms else 0

    def __and__(self, o):
        if isinstance(o, SymInt):
            o = o.concretize()
        if isinstance(o, int) and o >= 0:
            return self._bits(o)
        return self.concretize() & o
    __rand__ = __and__

    def __or__(self, o):
        return self.concretize() | int(o)
    __ror__ = __or__

    def __xor__(self, o):
        return self.concretize() ^ int(o)
    __rxor__ = __xor__

    def __rshift__(self, k):
        k = int(k)
        return SymInt.mk(self.e / (2 ** k))

    def __lshift__(self, k):
        k = int(k)
        return SymInt.mk(self.e * (2 ** k))

    def __rlshift__(self, o):
        return o << self.concretize()

    def __rrshift__(self, o):
        return o >> self.concretize()

    __lt__ = _cmp(lambda a, b: a < b)
    __le__ = _cmp(lambda a, b: a <= b)
    __gt__ = _cmp(lambda a, b: a > b)
    __ge__ = _cmp(lambda a, b: a >= b)
    __eq__ = _cmp(lambda a, b: a == b)
    __ne__ = _cmp(lambda a, b: a != b)

    def __repr__(self):
        return "<sym %s>" % self.e

    def __format__(self, spec):
        return "<sym>"


def is_sym(x):
    return isinstance(x, (SymInt, SymBool))


def assume(c):
    if isinstance(c, SymBool):
        Ctx.cur.add(c.e)
    elif not c:
        raise PathAbort()


def must_value(x):
    """If the path condition implies a unique value for x return it as int, else x itself."""
    if not isinstance(x, SymInt):
        return x
    ctx = Ctx.cur
    v = ctx.get_model().eval(x.e, model_completion=True).as_long()
    if not ctx.check(x.e != v):
        return v
    return x


def explore(fn, max_paths=2000000, time_budget=None, timeout_ms=60000, keep_samples=3, on_violation=None):
    """Exhaustive DFS over the feasible paths of fn(ctx).  Returns a stats dict (plain data)."""
    stack = [[]]
    t0 = time.time()
    st = dict(paths=0, aborted=0, queries=0, solver_s=0.0, obligations=0, discharged=0,
              violations=[], inconclusive=[], notes={}, samples=[], truncated=False, concretisations=0)
    while stack:
        prefix = stack.pop()
        ctx = Ctx(prefix, timeout_ms=timeout_ms)
        Ctx.cur = ctx
        outcome = 'ok'
        try:
            fn(ctx)
            st['paths'] += 1
        except PathAbort:
            st['aborted'] += 1
            outcome = 'aborted'
        except Violation as v:
            st['paths'] += 1
            outcome = 'violation'
            d = dict(v.args[0])
            d.setdefault('decisions', len(ctx.decisions))
            st['violations'].append(d)
            if on_violation:
                on_violation(d)
        except Inconclusive as e:
            st['paths'] += 1
            outcome = 'inconclusive'
            st['inconclusive'].append(str(e)[:300])
        finally:
            Ctx.cur = None
        st['queries'] += ctx.nqueries
        st['solver_s'] += ctx.solver_s
        st['obligations'] += ctx.obligations
        st['discharged'] += ctx.discharged
        st['concretisations'] += ctx.nconc
        for n in ctx.notes:
            st['notes'][n] = st['notes'].get(n, 0) + 1
        if outcome == 'ok' and len(st['samples']) < keep_samples and ctx.obligations:
            try:
                Ctx.cur = ctx
                st['samples'].append(dict(
                    inputs_example=ctx.model_inputs(),
                    path_condition=[str(z3.simplify(c))[:160] for c in ctx.pc[-12:]],
                    decisions=len(ctx.decisions), obligations=ctx.obligations, info=ctx.info))
            except (PathAbort, Inconclusive):
                pass
            finally:
                Ctx.cur = None
        d = ctx.decisions
        for i in range(len(prefix), len(d)):
            if d[i][1]:
                stack.append([x[0] for x in d[:i]] + [('b', not d[i][0][1])])
        if st['paths'] + st['aborted'] >= max_paths or (time_budget and time.time() - t0 > time_budget):
            if stack:
                st['truncated'] = True
            break
    st['wall_s'] = time.time() - t0
    return st

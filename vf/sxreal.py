"""Symbolic reals (z3 Real, QF_NRA) flowing through the real scaling / thermocouple code inside
NumPy object arrays.  Division by a non-constant is purified (q*b == a with b != 0 proved on the
path); sqrt/log/exp introduce fresh variables with their defining axioms / as uninterpreted terms.
Floating-point rounding is NOT modelled: verdicts are over the reals."""
from fractions import Fraction
import numpy as np
import z3
from .sx import Ctx, SymBool, SymInt, mk_bool, Inconclusive

LOG = z3.Function('ln', z3.RealSort(), z3.RealSort())
EXP = z3.Function('exp', z3.RealSort(), z3.RealSort())


def rval(x):
    """Exact rational z3 value of a Python/NumPy number (floats are taken at their exact binary value)."""
    if isinstance(x, (bool, np.bool_)):
        return z3.RealVal(int(x))
    if isinstance(x, (int, np.integer)):
        return z3.RealVal(int(x))
    if isinstance(x, (float, np.floating)):
        f = Fraction(float(x))
        return z3.RealVal(str(f))
    if isinstance(x, Fraction):
        return z3.RealVal(str(x))
    raise TypeError(type(x))


def _lr(x):
    if isinstance(x, SymReal):
        return x.e
    if isinstance(x, SymInt):
        return z3.ToReal(x.e)
    if isinstance(x, (bool, np.bool_)):
        return None
    if isinstance(x, (int, np.integer, float, np.floating, Fraction)):
        return rval(x)
    return None


def _bin(op):
    def f(self, o):
        o = _lr(o)
        return NotImplemented if o is None else SymReal(op(self.e, o))
    return f


def _rbin(op):
    def f(self, o):
        o = _lr(o)
        return NotImplemented if o is None else SymReal(op(o, self.e))
    return f


def _cmp(op):
    def f(self, o):
        o = _lr(o)
        return NotImplemented if o is None else RBool(op(self.e, o))
    return f


def nra_check(constraints, timeout_ms=120000):
    """Non-incremental QF_NRA query (the incremental core returned a bogus sat on a division term)."""
    s = z3.SolverFor('QF_NRA') if not _has_uf(constraints) else z3.Solver()
    s.set('timeout', timeout_ms)
    s.add(*constraints)
    r = s.check()
    return r, (s.model() if r == z3.sat else None)


def nra_check_isolated(constraints, report, timeout_s=40):
    """The same query in a forked child with a hard wall-clock limit (z3's own timeout is not reliable inside nlsat and the
    solver's global state grows over a worker's life).  report: {name: z3 term} evaluated in the model.  Returns ('unsat', None),
    ('sat', {name: str}) or ('unknown', None)."""
    import json
    import os
    import select
    import signal
    rfd, wfd = os.pipe()
    pid = os.fork()
    if pid == 0:
        try:
            os.close(rfd)
            r, m = nra_check(constraints, timeout_ms=int(timeout_s * 1000))
            out = dict(r=str(r))
            if r == z3.sat:
                out['vals'] = {k: str(m.eval(v, model_completion=True)) for k, v in report.items()}
            os.write(wfd, json.dumps(out).encode())
        finally:
            os._exit(0)
    os.close(wfd)
    data = b''
    try:
        ready, _, _ = select.select([rfd], [], [], timeout_s + 5)
        if ready:
            while True:
                chunk = os.read(rfd, 65536)
                if not chunk:
                    break
                data += chunk
    finally:
        os.close(rfd)
        try:
            os.kill(pid, signal.SIGKILL)
        except OSError:
            pass
        try:
            os.waitpid(pid, 0)
        except OSError:
            pass
    if not data:
        return 'unknown', None
    out = json.loads(data.decode())
    return out['r'], out.get('vals')


def _has_uf(constraints):
    txt = ' '.join(c.sexpr() for c in constraints)
    return '(ln ' in txt or '(exp ' in txt


def _div(a, b):
    b = z3.simplify(b)
    if z3.is_rational_value(b) or z3.is_int_value(b):
        if b.as_fraction() == 0:
            raise ZeroDivisionError("division by zero")
        return a / b
    ctx = Ctx.cur
    ctx.fresh += 1
    q = z3.Real('quot%d' % ctx.fresh)
    ctx.nqueries += 1
    r, _ = nra_check(list(ctx.pc) + [b == 0])
    if r == z3.unknown:
        raise Inconclusive("cannot decide divisor != 0")
    if r == z3.sat:
        raise ZeroDivisionError("possible division by zero")
    ctx.add(q * b == a)
    return q


class RBool(SymBool):
    """Comparison of reals; Python-bool use forks through a fresh QF_NRA query."""
    __array_ufunc__ = None

    def __bool__(self):
        ctx = Ctx.cur
        cond = z3.simplify(self.e)
        if z3.is_true(cond):
            return True
        if z3.is_false(cond):
            return False
        i = len(ctx.decisions)
        if i < len(ctx.prefix):
            kind, choice = ctx.prefix[i]
            ctx.decisions.append((('b', choice), False))
            ctx.add(cond if choice else z3.Not(cond))
            return choice
        ctx.nqueries += 2
        t, _ = nra_check(list(ctx.pc) + [cond])
        f, _ = nra_check(list(ctx.pc) + [z3.Not(cond)])
        if z3.unknown in (t, f):
            raise Inconclusive("real branch undecided")
        t, f = t == z3.sat, f == z3.sat
        if t:
            ctx.decisions.append((('b', True), f))
            ctx.add(cond)
            return True
        if f:
            ctx.decisions.append((('b', False), False))
            ctx.add(z3.Not(cond))
            return False
        from .sx import PathAbort
        raise PathAbort()

    def __and__(self, o):
        return RBool(z3.And(self.e, o.e if isinstance(o, SymBool) else z3.BoolVal(bool(o))))
    __rand__ = __and__

    def __or__(self, o):
        return RBool(z3.Or(self.e, o.e if isinstance(o, SymBool) else z3.BoolVal(bool(o))))
    __ror__ = __or__

    def __invert__(self):
        return RBool(z3.Not(self.e))


class SymReal:
    def __init__(self, e):
        self.e = e

    __add__ = _bin(lambda a, b: a + b)
    __radd__ = _rbin(lambda a, b: a + b)
    __sub__ = _bin(lambda a, b: a - b)
    __rsub__ = _rbin(lambda a, b: a - b)
    __mul__ = _bin(lambda a, b: a * b)
    __rmul__ = _rbin(lambda a, b: a * b)

    def __truediv__(self, o):
        o = _lr(o)
        return NotImplemented if o is None else SymReal(_div(self.e, o))

    def __rtruediv__(self, o):
        o = _lr(o)
        return NotImplemented if o is None else SymReal(_div(o, self.e))

    def __neg__(self):
        return SymReal(-self.e)

    def __pos__(self):
        return self

    def __pow__(self, n):
        if isinstance(n, float) and n == int(n):
            n = int(n)
        if not (isinstance(n, (int, np.integer)) and n >= 0):
            raise Inconclusive("non-integer power of a symbolic real")
        r = z3.RealVal(1)
        for _ in range(int(n)):
            r = r * self.e
        return SymReal(r)

    __lt__ = _cmp(lambda a, b: a < b)
    __le__ = _cmp(lambda a, b: a <= b)
    __gt__ = _cmp(lambda a, b: a > b)
    __ge__ = _cmp(lambda a, b: a >= b)
    __eq__ = _cmp(lambda a, b: a == b)
    __ne__ = _cmp(lambda a, b: a != b)
    __hash__ = None

    def sqrt(self):
        ctx = Ctx.cur
        ctx.fresh += 1
        s = z3.Real('sqrt%d' % ctx.fresh)
        ctx.add(z3.And(s >= 0, s * s == self.e))
        return SymReal(s)

    def log(self):
        # ln is not encoded: a fresh variable stands for ln(arg); the harness must relate the recorded
        # arguments (ctx.logs) to each other (equal arguments -> equal logarithms)
        ctx = Ctx.cur
        if not hasattr(ctx, 'logs'):
            ctx.logs = []
        known = getattr(ctx, 'log_oracle', None)      # (R, L): the harness names ln(R) =: L
        if known is not None:
            ctx.nqueries += 1
            r, _ = nra_check(list(ctx.pc) + [self.e != known[0]])
            if r == z3.unsat:
                ctx.logs.append((self.e, known[1]))
                return SymReal(known[1])
        ctx.fresh += 1
        v = z3.Real('ln%d' % ctx.fresh)
        ctx.logs.append((self.e, v))
        return SymReal(v)

    def exp(self):
        return SymReal(EXP(self.e))

    def reciprocal(self):
        return SymReal(_div(z3.RealVal(1), self.e))

    def square(self):
        return SymReal(self.e * self.e)

    def conjugate(self):
        return self

    def __abs__(self):
        return SymReal(z3.If(self.e >= 0, self.e, -self.e))

    def __repr__(self):
        return 'SymReal(%s)' % str(z3.simplify(self.e))[:80]

    def __float__(self):
        raise Inconclusive("symbolic real realised as float")


class RealArray(np.ndarray):
    """Object array carrying a dtype tag, so that astype/copy aliasing is observable."""
    tag = 'float64'

    def __array_finalize__(self, obj):
        self.tag = getattr(obj, 'tag', 'float64')

    def astype(self, dtype, copy=True, **k):
        want = np.dtype(dtype).name
        if not copy and want == self.tag:
            return self
        r = self.copy()
        r.tag = want
        return r


def rarr(es, tag='float64'):
    a = np.empty(len(es), dtype=object)
    for i, e in enumerate(es):
        a[i] = e if isinstance(e, (SymReal, Dual)) else SymReal(e)
    a = a.view(RealArray)
    a.tag = tag
    return a


class Dual:
    """Forward-mode derivative carrier: (value, d value / d input) as z3 Reals.  Comparisons use the value."""
    __array_ufunc__ = None

    def __init__(self, v, d):
        self.v, self.d = v, d

    @staticmethod
    def lift(o):
        if isinstance(o, Dual):
            return o
        r = _lr(o)
        if r is None:
            return None
        return Dual(r, z3.RealVal(0))

    def __add__(self, o):
        o = Dual.lift(o)
        return NotImplemented if o is None else Dual(self.v + o.v, self.d + o.d)
    __radd__ = __add__

    def __sub__(self, o):
        o = Dual.lift(o)
        return NotImplemented if o is None else Dual(self.v - o.v, self.d - o.d)

    def __rsub__(self, o):
        o = Dual.lift(o)
        return NotImplemented if o is None else Dual(o.v - self.v, o.d - self.d)

    def __mul__(self, o):
        o = Dual.lift(o)
        return NotImplemented if o is None else Dual(self.v * o.v, self.v * o.d + self.d * o.v)
    __rmul__ = __mul__

    def __truediv__(self, o):
        o = Dual.lift(o)
        if o is None:
            return NotImplemented
        ov = z3.simplify(o.v)
        if not z3.is_rational_value(ov) or not z3.is_true(z3.simplify(o.d == 0)):
            raise Inconclusive("Dual division by a non-constant")
        return Dual(self.v / ov, self.d / ov)

    def __neg__(self):
        return Dual(-self.v, -self.d)

    def __pow__(self, n):
        r = Dual(z3.RealVal(1), z3.RealVal(0))
        for _ in range(int(n)):
            r = r * self
        return r

    def exp(self):
        e = EXP(self.v)
        return Dual(e, e * self.d)

    def square(self):
        return self * self

    __lt__ = lambda s, o: RBool(s.v < Dual.lift(o).v)
    __le__ = lambda s, o: RBool(s.v <= Dual.lift(o).v)
    __gt__ = lambda s, o: RBool(s.v > Dual.lift(o).v)
    __ge__ = lambda s, o: RBool(s.v >= Dual.lift(o).v)
    __hash__ = None

    def __float__(self):
        raise Inconclusive("dual number realised as float")


class DReal(SymReal):
    """A Python float of unknown value in *dtype mode*: arithmetic with real NumPy arrays yields arrays of the
    dtype NumPy would produce for a Python float operand (values are meaningless), comparisons with
    numbers fork through the solver.  Used by C14 to reach value-dependent shortcuts in scale code."""
    __array_ufunc__ = None

    def _arr(self, o, op):
        if isinstance(o, np.ndarray) and o.dtype != object:
            return op(o, 1.0)
        return None

    def __mul__(self, o):
        r = self._arr(o, lambda a, b: a * b)
        return r if r is not None else DReal._wrap(SymReal.__mul__(self, o))
    __rmul__ = __mul__

    def __add__(self, o):
        r = self._arr(o, lambda a, b: a + b)
        return r if r is not None else DReal._wrap(SymReal.__add__(self, o))
    __radd__ = __add__

    def __sub__(self, o):
        r = self._arr(o, lambda a, b: b - a)
        return r if r is not None else DReal._wrap(SymReal.__sub__(self, o))

    def __rsub__(self, o):
        r = self._arr(o, lambda a, b: a - b)
        return r if r is not None else DReal._wrap(SymReal.__rsub__(self, o))

    def __truediv__(self, o):
        r = self._arr(o, lambda a, b: b / a)
        return r if r is not None else DReal._wrap(SymReal.__truediv__(self, o))

    def __rtruediv__(self, o):
        r = self._arr(o, lambda a, b: a / b)
        return r if r is not None else DReal._wrap(SymReal.__rtruediv__(self, o))

    @staticmethod
    def _wrap(r):
        if isinstance(r, SymReal) and not isinstance(r, DReal):
            return DReal(r.e)
        return r

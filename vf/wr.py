"""Writer-side harness shared by C07 / C08: builds TdmsWriter programs with symbolic pieces, runs the
instrumented writer into a SinkStream, and an independent structural parser for its output."""
import struct
import numpy as np
import z3
from .sx import Ctx, SymInt, ex
from .sxstr import SymStr, sym_str
from .stream import SinkStream, SymBytes, SymByte, sym_unpack, norm_bytes
from . import tdmsmodel as tm

NP_TAGS = ['int8', 'uint8', 'int16', 'uint16', 'int32', 'uint32', 'int64', 'uint64', 'float32', 'float64', 'complex64',
           'complex128', 'bool']
TAG_TCODE = dict(int8=1, int16=2, int32=3, int64=4, uint8=5, uint16=6, uint32=7, uint64=8, float32=9, float64=10,
                 complex64=0x08000c, complex128=0x10000d, bool=0x21, datetime64=0x44, str=0x20, symstr=0x20)
TCODE_SIZE = {k: v[1] for k, v in tm.TYPES.items()}


def planted(tag, n, k):
    """deterministic array of n values of dtype `tag` (k = counter)"""
    if tag in ('str',):
        pool = ['', 'a', 'héllo', 'x y', "q'", '€', 'zz']
        a = np.empty(n, dtype=object)
        for i in range(n):
            a[i] = pool[(k + i) % len(pool)]
        return a
    if tag == 'datetime64':
        return np.array([np.datetime64('2020-01-01T00:00:00', 'us') + np.timedelta64(3600 * (k + i) * 1000000 + 250000, 'us')
                         for i in range(n)], dtype='datetime64[us]')
    if tag == 'bool':
        return np.array([(k + i) % 2 == 0 for i in range(n)], dtype=np.bool_)
    if tag.startswith('complex'):
        return np.array([complex(k + i + 0.5, -(k + i))for i in range(n)], dtype=tag)
    if tag.startswith('float'):
        return np.array([(k + i) * 1.25 - 3 for i in range(n)], dtype=tag)
    info = np.iinfo(tag)
    vals = [info.min, info.max, 0, 1, (k * 37) % 100]
    return np.array([vals[(k + i) % len(vals)] for i in range(n)], dtype=tag)


def list_dt(n, k):
    """a Python list of np.datetime64 scalars of MIXED units, coarsest first (date, second, microsecond, millisecond)"""
    base = np.datetime64('2021-03-04', 'D') + np.timedelta64(k, 'D')
    vals = [base, np.datetime64(str(base) + 'T05:06:07', 's'), np.datetime64(str(base) + 'T05:06:07.123456', 'us'),
            np.datetime64(str(base) + 'T23:59:59.999', 'ms')]
    return vals[:n]


def canon_written(arr, tag):
    if tag in ('str', 'symstr'):
        return list(arr)
    if tag == 'datetime64':
        return [int(x) for x in np.asarray(arr).astype('datetime64[us]').astype('int64')]
    a = np.ascontiguousarray(arr)
    size = a.dtype.itemsize
    b = a.tobytes()
    return [b[i * size:(i + 1) * size] for i in range(len(a))]


class Program:
    """Builds writer objects for one path; records what a correct reader must return."""

    def __init__(self, ctx):
        self.ctx = ctx
        self.channels = {}       # path -> dict(tag, values=[...])
        self.props = {}          # path -> {name: (tdms type name, value | SymInt | SymStr)}
        self.order = []
        self.k = 0

    def prop(self, path, name, kind):
        """returns the python value to hand to the writer; records expectation"""
        ctx = self.ctx
        uid = '%s_%d' % (name, len(self.props.get(path, {})) + 7 * len(self.props))
        if kind == 'symint':
            v = ctx.int('int_' + uid, -2 ** 63, 2 ** 64 - 1)
            self.props.setdefault(path, {})[name] = ('int', v)
            return v
        if kind.startswith('int:'):
            v = int(kind[4:])
            self.props.setdefault(path, {})[name] = ('int', v)
            return v
        if kind == 'float':
            self.props.setdefault(path, {})[name] = ('DoubleFloat', 2.5)
            return 2.5
        if kind.startswith('float:'):
            v = float(kind[6:])
            self.props.setdefault(path, {})[name] = ('DoubleFloat', v)
            return v
        if kind == 'bool':
            self.props.setdefault(path, {})[name] = ('Boolean', True)
            return True
        if kind.startswith('bool:'):
            v = kind[5:] == 'True'
            self.props.setdefault(path, {})[name] = ('Boolean', v)
            return v
        if kind == 'str':
            self.props.setdefault(path, {})[name] = ('String', 'vä/lue')
            return 'vä/lue'
        if kind.startswith('strv:'):
            self.props.setdefault(path, {})[name] = ('String', kind[5:])
            return kind[5:]
        if kind.startswith('symstr:'):
            s, _ = sym_str(ctx, 'str_' + uid, int(kind[7:]))
            self.props.setdefault(path, {})[name] = ('String', s)
            return s
        if kind == 'dt':
            v = np.datetime64('2021-03-04T05:06:07.250000', 'us')
            self.props.setdefault(path, {})[name] = ('TimeStamp', int(v.astype('int64')))
            return v
        if kind.startswith('np:'):
            t = kind[3:]
            v = np.dtype(t).type(planted(t, 1, 3)[0])
            self.props.setdefault(path, {})[name] = (tm.TYPES[TAG_TCODE[t]][0], v.tobytes())
            return v
        if kind == 'unsupported':
            return object()         # not a supported property type: the writer must reject the whole call
        if kind.startswith('wrap:'):
            import nptdms.types as types
            cls = getattr(types, kind[5:])
            val = {'Int8': -5, 'Uint16': 65535, 'Uint64': 2 ** 64 - 1, 'SingleFloat': 0.5, 'Int64': -2 ** 62}[kind[5:]]
            self.props.setdefault(path, {})[name] = (kind[5:], val)
            return cls(val)
        raise ValueError(kind)

    def obj(self, spec):
        from nptdms.writer import RootObject, GroupObject, ChannelObject
        kind = spec[0]
        if kind == 'root':
            path = '/'
            props = {n: self.prop(path, n, k) for n, k in spec[1]}
            self._seen(path)
            return RootObject(props or None)
        if kind == 'group':
            path = tm.make_path(spec[1])
            props = {n: self.prop(path, n, k) for n, k in spec[2]}
            self._seen(path)
            return GroupObject(spec[1], props or None)
        _, g, c, tag, n, pspec = spec
        path = tm.make_path(g, c)
        self._seen(tm.make_path(g), implied=True)
        self._seen(path)
        self.k += 3
        if tag == 'symstr':
            data = np.empty(n, dtype=object)
            for i in range(n):
                s, _ = sym_str(self.ctx, 'dat_%s_%d_%d' % (c, self.k, i), 1)
                data[i] = s
            vals = list(data)
        elif tag == 'list-int':
            arr = [(-1) ** i * (self.k + i) for i in range(n)]
            data = arr
            tag = 'int8'
            vals = canon_written(np.array(arr, dtype='int8'), 'int8')
        elif tag == 'list-dt':
            data = list_dt(n, self.k)
            tag = 'datetime64'
            vals = [int(x.astype('datetime64[us]').astype('int64')) for x in data]
        else:
            data = planted(tag, n, self.k)
            vals = canon_written(data, tag)
        ch = self.channels.setdefault(path, dict(tag=tag, values=[]))
        if n > 0 or ch['values'] == []:
            if ch['tag'] != tag and n > 0:
                ch['tag'] = tag
        ch['values'].extend(vals)
        props = {n_: self.prop(path, n_, k) for n_, k in pspec}
        return ChannelObject(g, c, data, props or None)

    def _seen(self, path, implied=False):
        if path not in self.order:
            self.order.append(path)


def run_program(ctx, sessions, with_index=False):
    """sessions: list of dict(version, segments=[[objspec...]...]).  Returns (data sink, index sink, Program)."""
    from nptdms.writer import TdmsWriter
    data, index = SinkStream(), (SinkStream() if with_index else None)
    prog = Program(ctx)
    for ses in sessions:
        w = TdmsWriter(data, version=ses.get('version', 4712), index_file=index if with_index else False)
        with w:
            for seg in ses['segments']:
                snap = ({k: dict(tag=v['tag'], values=list(v['values'])) for k, v in prog.channels.items()},
                        {k: dict(v) for k, v in prog.props.items()}, list(prog.order))
                rejected = any(k == 'unsupported' for o in seg for (_, k) in (o[1] if o[0] == 'root' else o[2] if o[0] == 'group' else o[5]))
                try:
                    w.write_segment([prog.obj(o) for o in seg])
                except TypeError:
                    if not rejected:
                        raise
                    # a call the writer rejects writes nothing and must leave no trace in what is emitted later
                    prog.channels, prog.props, prog.order = snap
                    prog.rejected = getattr(prog, 'rejected', 0) + 1
    return data, index, prog


# ----------------------------------------------------------------------------- structural parser
class ParseError(Exception):
    pass


class Cursor:
    def __init__(self, items, pos=0):
        self.items, self.pos = items, pos

    def take(self, n):
        if self.pos + n > len(self.items):
            raise ParseError('stream ends inside a field at %d (+%d)' % (self.pos, n))
        b = self.items[self.pos:self.pos + n]
        self.pos += n
        return b

    def u(self, n, signed=False):
        b = self.take(n)
        v = sym_unpack('<' + {(1, False): 'B', (4, False): 'L', (8, False): 'Q', (4, True): 'l', (8, True): 'q'}[(n, signed)], norm_bytes(b))[0]
        return v

    def string(self):
        n = self.u(4)
        if isinstance(n, SymInt):
            raise ParseError('symbolic string length')
        return norm_bytes(self.take(n))


def parse_structure(items, tag=b'TDSm', has_data=True):
    """Walk a writer-produced stream by the TDMS layout rules.  Returns (segments, problems).
    Every check that compares a declared length with the bytes that follow is recorded in `problems`
    (list of strings) when violated; symbolic equalities are returned as z3 constraints in seg['must']."""
    items = list(items)
    cur = Cursor(items)
    segs, problems = [], []
    while cur.pos < len(items):
        start = cur.pos
        try:
            t = norm_bytes(cur.take(4))
            if t != tag:
                problems.append('segment at %d starts with %r' % (start, t))
                break
            toc = cur.u(4, True)
            version = cur.u(4, True)
            nso = cur.u(8)
            rdo = cur.u(8)
            meta_start = cur.pos
            nobj = cur.u(4)
            objs = []
            data_len = 0
            for _ in range(int(nobj)):
                path = cur.string()
                path = path.decode('utf-8') if isinstance(path, (bytes, bytearray)) else path.decode('utf-8')
                hdr = cur.u(4)
                o = dict(path=path, header=hdr, props=[])
                if hdr != 0xFFFFFFFF and hdr != 0:
                    tcode = cur.u(4)
                    dim = cur.u(4)
                    cnt = cur.u(8)
                    o.update(tcode=tcode, dim=dim, count=cnt)
                    expected_len = 28 if tcode == 0x20 else 20
                    if hdr != expected_len:
                        problems.append('raw data index length field of %s is %d but %d bytes of index follow' % (path, hdr, expected_len))
                    if dim != 1:
                        problems.append('dimension %r' % dim)
                    if tcode == 0x20:
                        total = cur.u(8)
                        o['total'] = total
                        data_len = data_len + total
                    elif tcode == 0:
                        if cnt != 0:
                            problems.append('void channel %s with %r values' % (path, cnt))
                    else:
                        if tcode not in TCODE_SIZE:
                            problems.append('unknown type code %r for %s' % (tcode, path))
                            break
                        data_len = data_len + cnt * TCODE_SIZE[tcode]
                nprops = cur.u(4)
                for _ in range(int(nprops)):
                    name = cur.string()
                    ptype = cur.u(4)
                    if ptype == 0x20:
                        val = cur.string()
                    elif ptype in TCODE_SIZE and TCODE_SIZE[ptype]:
                        val = norm_bytes(cur.take(TCODE_SIZE[ptype]))
                    else:
                        problems.append('unknown property type %r' % ptype)
                        raise ParseError('property type')
                    o['props'].append((name, ptype, val))
                objs.append(o)
            meta_len = cur.pos - meta_start
            seg = dict(start=start, toc=toc, version=version, nso=nso, rdo=rdo, objs=objs, meta_len=meta_len, data_len=data_len,
                       data_start=cur.pos)
            if rdo != meta_len:
                problems.append('raw data offset %r but metadata is %d bytes' % (rdo, meta_len))
            if nso != meta_len + data_len:
                problems.append('next segment offset %r but metadata %d + declared data %r' % (nso, meta_len, data_len))
            if has_data:
                if cur.pos + int(data_len) > len(items):
                    problems.append('declared raw data (%r bytes) runs past the end of the stream' % data_len)
                    break
                seg['data'] = items[cur.pos:cur.pos + int(data_len)]
                cur.pos += int(data_len)
            segs.append(seg)
        except ParseError as e:
            problems.append(str(e))
            break
    return segs, problems


def hierarchy_problems(segs):
    out = []
    if segs and not any(o['path'] == '/' for o in segs[0]['objs']):
        out.append('first segment does not declare the root object')
    declared = set()
    for si, sg in enumerate(segs):
        for o in sg['objs']:
            parts = tm.split_path(o['path'])
            if len(parts) == 2 and tm.make_path(parts[0]) not in declared:
                out.append('channel %s appears before its group is declared (segment %d)' % (o['path'], si))
            declared.add(o['path'])
    return out

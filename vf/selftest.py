"""Translator validation: the repository's own test suite run through the call-instrumented loader
(every nptdms.* module re-compiled with routed calls).  ./vcheck --selftest"""
import os
import sys


def main():
    from . import dispatch
    dispatch.install()
    import pytest
    repo = os.environ.get('VERIF_REPO', '/repo')
    os.chdir(repo)
    sys.path.insert(0, repo)
    rc = pytest.main(['-q', '-p', 'no:cacheprovider', '-x', '--no-header', 'nptdms'])
    routed = sum(dispatch.COUNTS.values())
    print("translator validation: pytest exit code %s, %d calls into nptdms functions routed through the dispatcher, %d modules instrumented"
          % (rc, routed, len(__import__('vf.loader', fromlist=['STATE']).STATE['modules'])))
    return 0 if rc == 0 else 1

"""Environment models for byte streams: symbolic bytes, a model of struct.pack/unpack,
streams with concrete layout and symbolic field values, streams with a symbolic length (crash
point), and a recording stream.  Every stub here is part of the claim of the checks using it."""
import io
import struct as _struct
import z3
import numpy as np
from .sx import Ctx, SymInt, SymBool, PathAbort, Inconclusive, ex, mk_bool, must_value

SIZES = dict(b=1, B=1, h=2, H=2, l=4, L=4, i=4, I=4, q=8, Q=8, f=4, d=8)


class Field:
    """An integer field of `width` bytes holding the unsigned value `value` (int | SymInt)."""
    __slots__ = ('value', 'width', 'endian', 'name')

    def __init__(self, value, width, endian, name=''):
        self.value, self.width, self.endian, self.name = value, width, endian, name

    def byte(self, i):
        k = i if self.endian == '<' else self.width - 1 - i
        v = self.value
        if isinstance(v, int):
            return (v >> (8 * k)) & 0xFF
        return SymByte(self, i)


class SymByte:
    __slots__ = ('field', 'i', '_e', 'origin')

    def __init__(self, field=None, i=0, e=None, origin=None):
        self.field, self.i, self._e = field, i, e
        self.origin = origin          # (SymChar, byte index, number of bytes) for bytes of an encoded symbolic character

    @property
    def e(self):
        if self._e is None:
            f = self.field
            k = self.i if f.endian == '<' else f.width - 1 - self.i
            self._e = (ex(f.value) / (256 ** k)) % 256
        return self._e

    def __repr__(self):
        return "<symbyte>"


def _bexpr(b):
    return z3.IntVal(b) if isinstance(b, int) else b.e


class SymBytes:
    """bytes-like of concrete length whose items are int or SymByte."""
    __slots__ = ('items',)

    def __init__(self, items):
        self.items = list(items)

    def __len__(self):
        return len(self.items)

    def __iter__(self):
        return iter(self.items)

    def __getitem__(self, i):
        if isinstance(i, slice):
            return norm_bytes(self.items[i])
        return self.items[i]

    def __add__(self, o):
        return norm_bytes(self.items + list(o))

    def __radd__(self, o):
        return norm_bytes(list(o) + self.items)

    def concrete(self):
        if all(isinstance(b, int) for b in self.items):
            return bytes(self.items)
        return None

    def __eq__(self, o):
        if not isinstance(o, (bytes, bytearray, SymBytes)):
            return NotImplemented
        oi = list(o)
        if len(oi) != len(self.items):
            return False
        conj = []
        for a, b in zip(self.items, oi):
            if isinstance(a, int) and isinstance(b, int):
                if a != b:
                    return False
                continue
            conj.append(_bexpr(a) == _bexpr(b))
        return mk_bool(z3.And(*conj)) if conj else True

    def __ne__(self, o):
        r = self.__eq__(o)
        if r is NotImplemented:
            return r
        return (not r) if isinstance(r, bool) else mk_bool(z3.Not(r.e))

    __hash__ = None

    def decode(self, *a, **k):
        c = self.concrete()
        if c is not None:
            return c.decode(*a, **k)
        # bytes produced by SymStr.encode decode back to the same symbolic characters when the span is aligned
        from .sxstr import SymStr
        enc = (a[0] if a else k.get('encoding', 'utf-8')).lower().replace('_', '-')
        out, run, i, items = [], bytearray(), 0, self.items
        ok = enc in ('utf-8', 'utf8', 'utf-8-sig')
        while i < len(items):
            b = items[i]
            if isinstance(b, int):
                run.append(b)
                i += 1
                continue
            if run:
                try:
                    out.extend(bytes(run).decode('utf-8'))
                except UnicodeDecodeError:
                    ok = False
                    break
                run = bytearray()
            o = b.origin
            if o is None or o[1] != 0 or i + o[2] > len(items) or not all(
                    isinstance(items[i + j], SymByte) and items[i + j].origin is not None and
                    items[i + j].origin[0] is o[0] and items[i + j].origin[1] == j for j in range(o[2])):
                ok = False
                break
            out.append(o[0])
            i += o[2]
        if ok:
            if run:
                try:
                    out.extend(bytes(run).decode('utf-8'))
                except UnicodeDecodeError:
                    ok = False
        if ok:
            if enc == 'utf-8-sig' and out:
                # this codec drops a leading byte order mark (forks on a symbolic first character)
                first = out[0]
                if (first == '\ufeff') if isinstance(first, str) else bool(SymInt.mk(first.e) == 0xFEFF):
                    out = out[1:]
            return SymStr(out)
        c = bytes(int(SymInt.mk(_bexpr(b))) if not isinstance(b, int) else b for b in self.items)
        return c.decode(*a, **k)

    def __repr__(self):
        return "<symbytes len %d>" % len(self.items)

    def eval(self, model):
        return bytes(b if isinstance(b, int) else model.eval(b.e, model_completion=True).as_long()
                     for b in self.items)


def norm_bytes(items):
    items = list(items)
    if all(isinstance(b, int) for b in items):
        return bytes(items)
    return SymBytes(items)


def _parse_fmt(fmt):
    endian = fmt[0] if fmt[0] in '<>=!@' else '='
    body = fmt[1:] if fmt[0] in '<>=!@' else fmt
    codes = []
    num = ''
    for ch in body:
        if ch.isdigit():
            num += ch
            continue
        codes.extend([ch] * (int(num) if num else 1))
        num = ''
    if endian in '=@':
        endian = '<'
    if endian == '!':
        endian = '>'
    return endian, codes


def sym_unpack(fmt, data):
    if isinstance(data, (bytes, bytearray, memoryview)):
        return _struct.unpack(fmt, data)
    c = data.concrete()
    if c is not None:
        return _struct.unpack(fmt, c)
    endian, codes = _parse_fmt(fmt)
    need = sum(SIZES[ch] for ch in codes)
    if need != len(data):
        raise _struct.error("unpack requires a buffer of %d bytes" % need)
    out = []
    pos = 0
    for ch in codes:
        w = SIZES[ch]
        items = data.items[pos:pos + w]
        pos += w
        if all(isinstance(b, int) for b in items):
            out.append(_struct.unpack(endian + ch, bytes(items))[0])
            continue
        if ch in 'fd':
            raise Inconclusive("symbolic float field in struct model")
        f0 = items[0].field if isinstance(items[0], SymByte) else None
        if (f0 is not None and f0.width == w and f0.endian == endian and
                all(isinstance(b, SymByte) and b.field is f0 and b.i == j for j, b in enumerate(items))):
            u = ex(f0.value)
        else:
            terms = []
            for j, b in enumerate(items):
                k = j if endian == '<' else w - 1 - j
                terms.append(_bexpr(b) * (256 ** k))
            u = z3.Sum(terms)
        if ch.islower():
            u = z3.If(u >= 2 ** (8 * w - 1), u - 2 ** (8 * w), u)
        out.append(SymInt.mk(u))
    return tuple(out)


def sym_pack(fmt, *values):
    if not any(isinstance(v, (SymInt, SymBool)) for v in values):
        return _struct.pack(fmt, *values)
    endian, codes = _parse_fmt(fmt)
    if len(codes) != len(values):
        raise _struct.error("pack expected %d items for packing (got %d)" % (len(codes), len(values)))
    out = []
    for ch, v in zip(codes, values):
        w = SIZES[ch]
        if not isinstance(v, (SymInt, SymBool)):
            out.extend(_struct.pack(endian + ch, v))
            continue
        if ch in 'fd':
            raise Inconclusive("symbolic value packed as float")
        if isinstance(v, SymBool):
            v = SymInt.mk(z3.If(v.e, 1, 0))
        lo, hi = (-(2 ** (8 * w - 1)), 2 ** (8 * w - 1) - 1) if ch.islower() else (0, 2 ** (8 * w) - 1)
        if not ((v >= lo) & (v <= hi)):       # forks: out of range raises like the real struct
            raise _struct.error("argument out of range")
        u = SymInt.mk(z3.If(v.e < 0, v.e + 2 ** (8 * w), v.e)) if ch.islower() else v
        fld = Field(u, w, endian)
        out.extend(fld.byte(i) for i in range(w))
    return norm_bytes(out)


def join_bytes(sep, parts):
    out = []
    first = True
    for p in parts:
        if not first:
            out.extend(sep)
        first = False
        out.extend(list(p))
    return norm_bytes(out)


# ---------------------------------------------------------------------------------------
class Region:
    __slots__ = ('kind', 'start', 'length', 'payload', 'tag')

    def __init__(self, kind, start, length, payload, tag=None):
        self.kind, self.start, self.length, self.payload, self.tag = kind, start, length, payload, tag


class Builder:
    """Builds the region list of a stream with concrete layout and (possibly) symbolic field values."""

    def __init__(self):
        self.regions = []
        self.pos = 0

    def _add(self, kind, length, payload, tag=None):
        r = Region(kind, self.pos, length, payload, tag)
        self.regions.append(r)
        self.pos += length
        return r

    def raw(self, b):
        b = bytes(b)
        if b:
            self._add('raw', len(b), lambda i, b=b: b[i])

    def items(self, items):
        items = list(items)
        if items:
            self._add('raw', len(items), lambda i, items=items: items[i])

    def field(self, value, width, endian='<', name=''):
        f = Field(value, width, endian, name)
        self._add('field', width, f.byte)
        return f

    def string(self, s, endian='<'):
        b = s.encode('utf-8')
        self.field(len(b), 4, endian)
        self.raw(b)


def concrete_file(regions):
    """io.BytesIO over a region list all of whose bytes are concrete ints (for plain-package replays); None otherwise"""
    import io
    out = bytearray()
    for r in regions:
        for i in range(r.length):
            b = r.payload(i)
            if not isinstance(b, int):
                return None
            out.append(b)
    return io.BytesIO(bytes(out))


class SymStream:
    """File object over a region list.  Positions are concrete except after a seek to a symbolic
    position, which is resolved lazily (must-value query, then comparison with the size, then
    enumeration).  `size` may be a SymInt (symbolic cut).  Records every read."""

    def __init__(self, regions, size=None, name='stream'):
        self.regions = regions
        self.total = sum(r.length for r in regions)
        self.size = self.total if size is None else size
        self.pos = 0
        self.reads = []
        self.closed = False
        self.name = name
        self._starts = [r.start for r in regions]

    def tell(self):
        return self.pos

    def seek(self, pos, whence=0):
        if self.closed:
            raise ValueError("I/O operation on closed file.")
        if whence == 0:
            p = pos
        elif whence == 1:
            p = self.pos + pos
        else:
            p = self.size + pos
        if isinstance(p, SymInt):
            p = must_value(p)
        if not isinstance(p, SymInt) and p < 0:
            raise ValueError("negative seek value %r" % (p,))
        self.pos = p
        return p

    def _resolve(self):
        p = self.pos
        if isinstance(p, SymInt):
            if p < 0:
                raise ValueError("negative seek value")
            if p >= self.size:
                return None
            p = int(p)
            self.pos = p
        return p

    def _byte_at(self, p):
        import bisect
        k = bisect.bisect_right(self._starts, p) - 1
        r = self.regions[k]
        return r.payload(p - r.start)

    def read(self, n=-1):
        if self.closed:
            raise ValueError("read of closed file")
        p = self._resolve()
        if p is None:
            return b''
        avail = self.size - p
        if n is None or (not isinstance(n, SymInt) and n < 0):
            n = avail
        if isinstance(n, SymInt) or isinstance(avail, SymInt):
            if avail <= 0:
                k = 0
            elif n <= avail:
                k = int(n) if isinstance(n, SymInt) else n
                if k < 0:
                    raise ValueError("read length must be non-negative or -1")
            else:
                k = int(avail) if isinstance(avail, SymInt) else avail
        else:
            k = max(0, min(n, avail))
        k = min(k, max(0, self.total - p))
        out = [self._byte_at(q) for q in range(p, p + k)]
        self.reads.append((p, k))
        self.pos = p + k
        return norm_bytes(out)

    def readinto(self, buf):
        data = self.read(len(buf))
        if not isinstance(data, (bytes, bytearray)):
            raise Inconclusive("symbolic bytes read into a numpy buffer")
        n = len(data)
        if n:
            buf[:n] = np.frombuffer(data, dtype=np.uint8)
        return n

    def close(self):
        self.closed = True


class CutFile:
    """Concrete bytes whose length is the symbolic crash point `cut` (int | SymInt)."""

    def __init__(self, raw, cut):
        self.raw, self.cut, self.pos = raw, cut, 0
        self.closed = False

    def tell(self):
        return self.pos

    def seek(self, pos, whence=0):
        self.pos = pos if whence == 0 else (self.pos + pos if whence == 1 else self.cut + pos)
        return self.pos

    def _take(self, n):
        if n is None or (not isinstance(n, SymInt) and n < 0):
            n = self.cut - self.pos
        avail = self.cut - self.pos
        if avail >= n:
            k = int(n)
        elif avail <= 0:
            k = 0
        else:
            k = int(avail)
        p = int(self.pos)
        out = self.raw[p:p + k]
        self.pos = p + len(out)
        return out

    def read(self, n=-1):
        return self._take(n)

    def readinto(self, buf):
        b = self._take(len(buf))
        if len(b):
            buf[:len(b)] = np.frombuffer(b, dtype=np.uint8)
        return len(b)

    def close(self):
        self.closed = True


class RecStream(io.BytesIO):
    """BytesIO that records (position, size) of every read()/readinto()."""

    def __init__(self, data):
        super().__init__(data)
        self.log = []

    def read(self, n=-1):
        p = self.tell()
        b = super().read(n)
        self.log.append((p, len(b)))
        return b

    def readinto(self, buf):
        p = self.tell()
        n = super().readinto(buf)
        self.log.append((p, n))
        return n


class SinkStream:
    """Write-only stream collecting what TdmsWriter writes (bytes or SymBytes)."""

    def __init__(self):
        self.items = []
        self.closed = False
        self.chunks = []

    def write(self, b):
        if self.closed:
            raise ValueError("write to closed file")
        b = list(b)
        self.chunks.append(len(b))
        self.items.extend(b)
        return len(b)

    def read(self, *a):       # TdmsWriter treats anything with .read as a file object
        raise io.UnsupportedOperation("read")

    def flush(self):
        pass

    def fileno(self):         # ndarray.tofile needs a real descriptor: behave like io.BytesIO
        raise io.UnsupportedOperation("fileno")

    def tell(self):
        return len(self.items)

    def close(self):
        self.closed = True

    def to_stream(self):
        b = Builder()
        b.items(self.items)
        return SymStream(b.regions)

    def value(self):
        return norm_bytes(self.items)
